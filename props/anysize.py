"""Obligations for EVERY number of samples (LAM domain, pydv/lam.py), shared by C14 (spline slopes) and C15 (SQuad).

The real code runs once on tensors of symbolic length nx.  Loops over range(.., nx, ..) are cut at an invariant on a
generic matrix entry (R, C) (lam.lam_range); reductions over an axis of length nx (sum, matmul, einsum) are recorded
with their summand; linalg.solve is replaced by its contract.  A statement "sum over all columns of g(c) = v" is
proved as: g vanishes outside a finite candidate set (generic column c), and v is the sum of g over the distinct
candidates - the step from the two to the statement is the lemma lam.prove_sum_lemma (proved by induction on every run).
"""
import importlib

import z3

from pydv import kit, lam
from pydv.core import ctx, fresh_int, OutOfSubset


def prove_with(c, name, formula, pc, kind="ensures"):
    saved = c.pc
    try:
        c.pc = pc
        return c.prove(name, formula, kind=kind)
    finally:
        c.pc = saved


class Seq(object):
    """x[i] for a z3 function of the index"""

    def __init__(self, f):
        self.f = f

    def __getitem__(self, i):
        return self.f(i if isinstance(i, z3.ExprRef) else z3.IntVal(i))


# ---- invariants (shapes only: what an iteration adds is read off the executed body, see lam._cut) ---------------------------------
def inv_rows_from_i_get_an_increment(E, E0, i, delta, R, C):
    """iteration i adds something to the rows >= i only: row R differs from row R-1 by what iteration R added to row R"""
    return z3.And(E(0, C) == 0, z3.Implies(R >= 1, E(R, C) - E(R - 1, C) == z3.If(R < i, delta(R, R, C), 0)))


def inv_simpson_pairs(E, E0, i, delta, R, C):
    """iterations 2, 4, ..: even rows differ from the row two above by the increment of their own iteration, odd rows
    equal the even row above them; rows 0 and 1 stay zero"""
    return z3.And(E(0, C) == 0, z3.Implies(R >= 1, z3.If(R % 2 == 0, E(R, C) - E(R - 2, C) == z3.If(R < i, delta(R, R, C), 0),
                                                         E(R, C) == E(R - 1, C))))


def inv_simpson_last_interval(E, E0, i, delta, R, C):
    """iterations 3, 5, ..: only row i changes; everything else is as at loop entry"""
    return z3.And(E(0, C) == E0(0, C),
                  z3.Implies(R >= 1, z3.If(R % 2 == 0, E(R, C) == E0(R, C),
                                           E(R, C) == E0(R, C) + z3.If(z3.And(R < i, R >= 3), delta(R, R, C), 0))))


INVARIANTS = {
    ("get_trapz_weights", 0): {"res": inv_rows_from_i_get_an_increment},
    ("get_cspline_grad_weights", 0): {"res": inv_rows_from_i_get_an_increment},
    ("get_simpson_weights", 0): {"res": inv_simpson_pairs},
    ("get_simpson_weights", 1): {"res": inv_simpson_last_interval},
}

_M = {}


def modules():
    if not _M:
        _M["sq"] = importlib.import_module("xitorch._impls.integrate.samples_quad")
        _M["sd"] = importlib.import_module("xitorch.integrate.squad")
        _M["i1"] = importlib.import_module("xitorch._impls.interpolate.interp_1d")
        _M["bc"] = importlib.import_module("xitorch._utils.bcast")
    return _M


def lam_world():
    """the real modules with `torch` replaced by the LAM namespace and range() cutting loops of symbolic length"""
    import contextlib
    m = modules()
    T = lam.make_torch()

    @contextlib.contextmanager
    def cm():
        with kit.patched(m["sq"], "torch", T), kit.patched(m["sd"], "torch", T), kit.patched(m["i1"], "torch", T), \
                kit.patched(m["bc"], "torch", T), kit.patched(m["sq"], "range", lam.lam_range):
            yield m
    return cm()


def facts_at(rows, cols):
    out = []
    for fact in ctx().ghost.get("lam_facts", []):
        for r in rows:
            for cc in cols:
                out.append(fact(r, cc, "zeros"))
    return out


def finite_sum(c, tag, g, cands, n, hyps, fact_rows, what):
    """proves that g vanishes at every column that is none of the candidates; returns the sum of g over the distinct
    candidates inside [0, n) (equal to the sum over all columns by the sum lemma)"""
    col = z3.Int("c")
    off = [col != a for a in cands]
    ok = lam._prove_from(c, "%s:%s_vanishes_outside_its_few_columns" % (tag, what), g(col) == 0,
                         hyps + [col >= 0, col < n] + off + facts_at(fact_rows, [col]), kind="ensures")
    return ok, lam.dedupe_sum(g, cands, n)


def widths_substitution(fname, labels):
    """x@l0 < x@l1 < ... written as x@l0 + h0 + .. with h_j > 0 (a bijection of the ordered tuples)"""
    xs = [z3.Real("%s@%s" % (fname, lb)) for lb in labels]
    hs = [z3.Real("width%d" % j) for j in range(len(labels) - 1)]
    sub, acc = [], xs[0]
    for k in range(1, len(xs)):
        acc = acc + hs[k - 1]
        sub.append((xs[k], acc))
    return sub, [h > 0 for h in hs]


def canon_prove(c, name, goal, int_hyps, points, funcs, real_hyps, extra_facts=(), widths=None, subst=None, linear_in=None):
    """prove a real-arithmetic goal whose tensor entries sit at symbolic positions: positions are resolved to the canonical
    points first (integer queries), the remaining goal is nonlinear real arithmetic over plain constants"""
    if subst:
        goal = z3.substitute(goal, *subst)
        int_hyps = [z3.substitute(h, *subst) for h in int_hyps]
        real_hyps = [z3.substitute(h, *subst) for h in real_hyps]
        extra_facts = [z3.substitute(h, *subst) for h in extra_facts]
        points = [(z3.simplify(z3.substitute(p, *subst)), lb) for p, lb in points]
    try:
        g = lam.canonize(goal, funcs, points, int_hyps)
        hs = []
        for h in list(real_hyps) + list(extra_facts):
            try:
                hs.append(lam.canonize(h, funcs, points, int_hyps))
            except lam.Undecided:
                pass          # a hypothesis about other positions: dropping it is sound
    except lam.Undecided as ex:
        c.obligations.append(__import__("pydv.core", fromlist=["Obligation"]).Obligation(name, "unknown", "canonize", 0.0, str(ex), path=list(c.trace)))
        return False
    if widths is not None:
        sub, pos = widths_substitution(*widths)
        g = z3.substitute(g, *sub)
        hs = [z3.substitute(h, *sub) for h in hs] + pos
    g, hs = z3.simplify(g), [z3.simplify(h) for h in hs]
    if not linear_in and linear_entailment(c, name, g, hs, int_hyps):
        return True
    if not linear_in:
        return _reduce_and_prove(c, name, g, int_hyps, hs)
    # both sides are linear in the sample values (and slopes): the identity is proved coefficient by coefficient, and the
    # linearity of each side is an obligation of its own
    if not (z3.is_eq(g) and g.num_args() == 2):
        raise OutOfSubset("canon_prove: the goal is not an equation")
    lhs, rhs = g.arg(0), g.arg(1)
    vals = sorted({v for v in _consts(g) if v.decl().name().startswith(tuple(linear_in))}, key=lambda v: v.decl().name())
    if not vals:
        return _reduce_and_prove(c, name, g, int_hyps, hs)

    def coef(t, v):
        return z3.simplify(z3.substitute(t, *[(w, z3.RealVal(1 if w.eq(v) else 0)) for w in vals]))
    ok = True
    for side, nm in ((lhs, "the_weighted_sum"), (rhs, "the_integral_of_the_interpolant")):
        if is_linear(side, vals):
            c.ok(name + ":" + nm + "_is_linear_in_the_sample_values", "syntactic: sums, products with value-free factors, quotients by value-free terms")
        else:
            ok = _reduce_and_prove(c, name + ":" + nm + "_is_linear_in_the_sample_values", side == z3.Sum([v * coef(side, v) for v in vals]),
                                   int_hyps, hs) and ok
    for v in vals:
        ok = _reduce_and_prove(c, name, coef(lhs, v) == coef(rhs, v), int_hyps, hs) and ok
    return ok


def is_linear(t, vals):
    """syntactic: t is a homogeneous linear form in the constants `vals` with value-free coefficients"""
    ids = {v.get_id() for v in vals}
    free_cache, lin_cache = {}, {}

    def free(u):
        k = u.get_id()
        if k not in free_cache:
            free_cache[k] = k not in ids and all(free(ch) for ch in u.children())
        return free_cache[k]

    def lin(u):
        k = u.get_id()
        if k in lin_cache:
            return lin_cache[k]
        if k in ids:
            r = True
        elif z3.is_rational_value(u) and u.numerator_as_long() == 0:
            r = True
        elif not z3.is_app(u):
            r = False
        else:
            kind, ch = u.decl().kind(), u.children()
            if kind in (z3.Z3_OP_ADD, z3.Z3_OP_SUB, z3.Z3_OP_UMINUS):
                r = all(lin(x) for x in ch)
            elif kind == z3.Z3_OP_MUL:
                nonfree = [x for x in ch if not free(x)]
                r = len(nonfree) == 1 and lin(nonfree[0])
            elif kind == z3.Z3_OP_DIV:
                r = lin(ch[0]) and free(ch[1])
            elif kind == z3.Z3_OP_ITE:
                r = free(ch[0]) and lin(ch[1]) and lin(ch[2])
            else:
                r = False
        lin_cache[k] = r
        return r
    return lin(t)


def _consts(t, acc=None, seen=None):
    acc = set() if acc is None else acc
    seen = set() if seen is None else seen
    if t.get_id() in seen:
        return acc
    seen.add(t.get_id())
    if z3.is_const(t) and t.decl().kind() == z3.Z3_OP_UNINTERPRETED:
        acc.add(t)
    for ch in t.children():
        _consts(ch, acc, seen)
    return acc


def _reduce_and_prove(c, name, g, int_hyps, hs):
    """entries of the weight matrices after the cut loops: each distinct position becomes a plain real constant (only the
    hypotheses relate them; congruence between syntactically different positions is given up, which is sound), then
    equalities are solved so that nonlinear real arithmetic sees a closed identity"""
    g0, hs0 = g, hs
    gr = ground_apps([g] + list(hs))
    g, hs = gr[0], gr[1:]
    goal = z3.Goal()
    for h in list(int_hyps) + hs:
        goal.add(h)
    goal.add(z3.Not(g))
    try:
        sub = z3.Then("simplify", "propagate-values", "solve-eqs", "simplify")(goal)
        reduced = z3.Or(*[sg.as_expr() for sg in sub]) if len(sub) else z3.BoolVal(False)
        if _coefficientwise(c, name, sub):
            return True
        if prove_with(c, name, z3.Not(reduced), []):
            return True
        c.obligations.pop()          # fall back to the unreduced form below
    except z3.Z3Exception:
        pass
    return prove_with(c, name, g0, list(int_hyps) + list(hs0))


def linear_entailment(c, name, goal, hyps, int_hyps):
    """goal and some hypotheses are equations linear in the values (sample values, slopes) with coefficients that are rational
    functions of the knot widths: the goal is shown to be a combination of the hypothesis equations by elimination - every
    step is a rational identity (or a non-vanishing pivot) in the widths only, which real arithmetic decides reliably.
    Returns False (and records nothing) when the problem does not have this form."""
    from pydv.core import discharge
    if not (z3.is_eq(goal) and z3.is_real(goal.arg(0))):
        return False
    eqs = [h for h in hyps if z3.is_eq(h) and z3.is_real(h.arg(0))]
    side = [h for h in hyps if not (z3.is_eq(h) and z3.is_real(h.arg(0)))] + list(int_hyps)
    allc = set()
    for e in eqs + [goal]:
        allc |= _consts(e)
    vals = sorted({v for v in allc if z3.is_real(v) and not v.decl().name().startswith(("width", "x@"))}, key=lambda v: v.decl().name())
    if not vals:
        return False
    rows = []
    for e in eqs + [goal]:
        d = e.arg(0) - e.arg(1)
        if not is_linear(d, vals):
            if e is goal:
                return False
            continue            # a hypothesis of another form is not used
        rows.append({v.get_id(): z3.simplify(z3.substitute(d, *[(w, z3.RealVal(1 if w.eq(v) else 0)) for w in vals])) for v in vals})
    g, hrows = rows[-1], rows[:-1]
    zero = z3.RealVal(0)
    norm_cache = {}

    def norm(e):
        """(numerator polynomial in sum-of-monomials form, denominator) of the rational function e"""
        k = e.get_id()
        if k not in norm_cache:
            n_, d_ = to_fraction(e)
            norm_cache[k] = (z3.simplify(n_, som=True), d_)
        return norm_cache[k]

    def den_ok(d_):
        return z3.is_rational_value(d_) or discharge(side, d_ != 0, 4000)[0] == "proved"

    def nonzero(e):
        n_, d_ = norm(e)
        if z3.is_rational_value(n_):
            return n_.numerator_as_long() != 0 and den_ok(d_)
        return discharge(side, n_ != 0, 4000)[0] == "proved" and den_ok(d_)

    def is_zero(e):
        n_, d_ = norm(e)
        return z3.is_rational_value(n_) and n_.numerator_as_long() == 0
    work = [dict(r) for r in hrows]
    while work:
        r = work.pop(0)
        piv = None
        for v in vals:
            if not is_zero(r[v.get_id()]) and nonzero(r[v.get_id()]):
                piv = v.get_id()
                break
        if piv is None:
            continue            # no usable pivot: the row is dropped (using fewer hypotheses is sound)
        for t in work + [g]:
            if is_zero(t[piv]):
                t[piv] = zero
                continue
            tp = t[piv]
            for v in vals:      # fraction-free step: t := r[piv] * t - t[piv] * r   (r[piv] != 0, so t == 0 is unchanged)
                k = v.get_id()
                t[k] = zero if k == piv else r[piv] * t[k] - tp * r[k]
    n0 = len(c.obligations)
    for v in vals:
        e = g[v.get_id()]
        n_, d_ = norm(e)
        if not den_ok(d_):
            del c.obligations[n0:]
            return False
        if not prove_with(c, name, n_ == 0, side):
            del c.obligations[n0:]
            return False
    return True


def to_fraction(e):
    """numerator and denominator (division-free z3 terms) of a term built from +, -, *, / and integer powers"""
    cache = {}
    one = z3.RealVal(1)

    def go(t):
        k = t.get_id()
        if k in cache:
            return cache[k]
        kind = t.decl().kind() if z3.is_app(t) else None
        ch = t.children() if z3.is_app(t) else []
        if kind == z3.Z3_OP_ADD or kind == z3.Z3_OP_SUB:
            n_, d_ = go(ch[0])
            for x in ch[1:]:
                n2, d2 = go(x)
                if kind == z3.Z3_OP_SUB:
                    n2 = -n2
                if z3.eq(d_, d2):
                    n_ = n_ + n2
                else:
                    n_, d_ = n_ * d2 + n2 * d_, d_ * d2
            r = (n_, d_)
        elif kind == z3.Z3_OP_MUL:
            n_, d_ = one, one
            for x in ch:
                n2, d2 = go(x)
                n_, d_ = n_ * n2, (d_ * d2 if not z3.eq(d2, one) else d_)
            r = (n_, d_)
        elif kind == z3.Z3_OP_DIV:
            na, da = go(ch[0])
            nb, db = go(ch[1])
            r = (na * db, da * nb)
        elif kind == z3.Z3_OP_UMINUS:
            n_, d_ = go(ch[0])
            r = (-n_, d_)
        elif kind == z3.Z3_OP_POWER and z3.is_rational_value(ch[1]) and ch[1].denominator_as_long() == 1 and ch[1].numerator_as_long() >= 0:
            n_, d_ = go(ch[0])
            p = ch[1].numerator_as_long()
            rn, rd = one, one
            for _ in range(p):
                rn, rd = rn * n_, rd * d_
            r = (rn, rd)
        elif kind == z3.Z3_OP_TO_REAL:
            r = (t, one)
        else:
            r = (t, one)
        r = (z3.simplify(r[0]), z3.simplify(r[1]))
        cache[k] = r
        return r
    return go(e)


def _coefficientwise(c, name, subgoals):
    """the reduced problem is  side conditions and not (a == b)  with a - b linear in the remaining values (everything but
    the knot positions and widths): a == b is proved coefficient by coefficient - each a rational identity in the widths.
    Returns False (nothing recorded) when the problem does not have that form or a coefficient is not proved."""
    if len(subgoals) != 1:
        return False
    conj = list(subgoals[0])
    neq = [f for f in conj if z3.is_not(f) and z3.is_eq(f.arg(0)) and z3.is_real(f.arg(0).arg(0))]
    if len(neq) != 1:
        return False
    side = [f for f in conj if f is not neq[0]]
    a, b = neq[0].arg(0).arg(0), neq[0].arg(0).arg(1)
    vals = sorted({v for v in _consts(a - b) if z3.is_real(v) and not v.decl().name().startswith(("width", "x@"))},
                  key=lambda v: v.decl().name())
    if not vals or not is_linear(a - b, vals):
        return False
    n0 = len(c.obligations)
    for v in vals:
        sub = [(w, z3.RealVal(1 if w.eq(v) else 0)) for w in vals]
        if not prove_with(c, name, z3.simplify(z3.substitute(a, *sub)) == z3.simplify(z3.substitute(b, *sub)), side):
            del c.obligations[n0:]
            return False
    return True


def ground_apps(terms, prefixes=("post_", "pre_", "solved", "mm", "sum", "es")):
    cache, names = {}, {}

    def go(t):
        key = t.get_id()
        if key in cache:
            return cache[key]
        if z3.is_app(t) and t.num_args() > 0:
            nm = t.decl().name()
            if t.decl().kind() == z3.Z3_OP_UNINTERPRETED and nm.startswith(prefixes) and z3.is_real(t):
                txt = z3.simplify(t).sexpr()
                r = names.setdefault(txt, z3.Real("entry%d<%s>" % (len(names), nm)))
            else:
                r = lam._rebuild(t, [go(x) for x in t.children()])
        else:
            r = t
        cache[key] = r
        return r
    return [go(t) for t in terms]


def knot_points(base, lo, hi, n=None):
    """canonical positions base+lo .. base+hi (label = offset) plus, optionally, the ends 0.. and n-1.."""
    pts = [(z3.simplify(base + d), ("p%d" % d) if d >= 0 else ("m%d" % -d)) for d in range(lo, hi + 1)]
    return pts


def increasing(fname, labels):
    xs = [z3.Real("%s@%s" % (fname, lb)) for lb in labels]
    return [a < b for a, b in zip(xs, xs[1:])]


def sum_lemmas(c, ks):
    for k in ks:
        lam.prove_sum_lemma(lambda nm, f, pc: prove_with(c, nm, f, pc, kind="lemma"), k)
