"""C14 - Interp1D evaluates the declared interpolant of the samples (ARR domain: concrete shapes, symbolic entries)."""
import contextlib
import importlib
import warnings

import z3

from pydv import core, kit, arr
from pydv.core import ctx, OutOfSubset

CLAIM = {
    "claimed": True,
    "category": "proof",
    "text": "For EVERY number of knots nr and queries nq (tensors of symbolic length, units any_size[*]), sorted 1-D sample "
            "positions: (i) the interval search of LinearInterp1D._interp / CubicSpline1D._interp "
            "finds an interval containing each in-range query with all gather indices in range, and both internal evaluation "
            "formulas (more / not more queries than knots) return the linear interpolant, resp. the cubic Hermite polynomial "
            "with end values y_j, y_j+1 and end slopes k_j, k_j+1, on every interval containing the query (hence the sample "
            "values at the sample positions); (ii) the slopes computed by the real CubicSpline1D.__init__ / _get_spline_mat_inv "
            "(linalg.solve replaced by its contract) make the second derivative continuous at every interior knot and satisfy "
            "the boundary condition - natural: second derivative 0 at both ends; clamped: first derivative 0 at both ends; "
            "not-a-knot: third derivative continuous at the second and last-but-one knot; periodic: first and second derivative "
            "agree at the two ends - and are the slopes the evaluation uses; (iii) with y given at call time instead, _interp computes "
            "the slopes from the stored solved matrix and the given y, they satisfy the same conditions, and the value equals the one "
            "obtained with these slopes stored at construction; (iv) (i) and (ii) also for y (and slopes) with a batch dimension of "
            "every size, for every line of the batch. BOUNDED in the tensor shapes (all values; reported "
            "under bounded_obligations, not counted as proved; 3 to 6 knots, 1 to 7 queries, batch 2): y given at call time or "
            "twice (warning) or never (RuntimeError), samples given in any order, batched y and x, reuse of one object with "
            "different y, every extrapolation mode (nan, constant, callable, bound, mirror, periodic) at exactly the outside "
            "queries, default mode per boundary condition, rejection of batched extrapolation, unknown method / boundary condition.",
    "note": "Assumed: linalg.solve returns a solution of its system (torch raises for a singular matrix); matrix products "
            "are associative; contract of searchsorted / gather / clamp as written in pydv/lam.py and pydv/arr.py; floats are reals. "
            "Not decided: differentiation (all operations are differentiable torch operations; nothing custom; a bounded "
            "gradient oracle runs on real torch) and the constructor failing when x requires grad (torch run-time behaviour).",
    "design_ref": "DESIGN.md sections 6 C14 and 11.8",
}

META = {
    "level": "proof",
    "shape_bounded_by_default": True,
    "unbounded_units": ["any_size["],
    "explanation": "units any_size[*]: proofs for every number of knots and queries (LAM domain); every other unit is a proof for all "
                   "values at the tensor shapes it executes (3..6 knots, 1..7 queries, batch 2) and is reported under bounded_obligations",
    "files": ["xitorch/interpolate/interp1.py", "xitorch/_impls/interpolate/interp_1d.py", "xitorch/_impls/interpolate/extrap_utils.py",
              "xitorch/_utils/bcast.py"],
    "functions_under_contract": ["xitorch._impls.interpolate.interp_1d:LinearInterp1D._interp, CubicSpline1D.__init__/_interp, "
                                 "_get_spline_mat_inv (all sizes)",
                                 "xitorch.interpolate.interp1:Interp1D.__init__/__call__; BaseInterp1D.__call__, check_and_get_extrap, "
                                 "check_periodic_value; xitorch._impls.interpolate.extrap_utils:get_extrap_pos, get_extrap_val; "
                                 "xitorch._utils.bcast:match_dim (bounded shapes)"],
    "trusted_base": ["pydv/lam.py: tensors of symbolic length as functions of the index; views write through; contract of searchsorted",
                     "pydv/arr.py: element-wise meaning of the torch operations used, views alias their base (bounded units)",
                     "linalg.solve returns a solution", "matrix products are associative", "floats are reals", "z3 / cvc5 nonlinear real arithmetic"],
    "assumptions": ["any-size units: sorted 1-D x, y given at construction; everything else at shapes 3..6 knots, 1..7 queries, batch 2",
                    "floats are reals", "periodic: y[0] == y[-1] (the library's documented requirement; check_periodic_value enforces it)"],
    "not_applicable_parts": ["derivatives of the result (torch autograd of standard operations)", "x requiring grad at construction"],
    "min_obligations": 40,
}


def replay(name, first_bad):
    if "extrap" in name:
        return kit.concrete_replay("C14", ["extrapolation_modes"])
    if "unsorted" in name or "y_at" in name:
        return kit.concrete_replay("C14", ["ordering_and_late_y"])
    return kit.concrete_replay("C14", ["against_reference_splines", "both_formulas_agree", "sample_values"])


_MODS = {}


def mods():
    if not _MODS:
        for nm, path in (("i1", "xitorch._impls.interpolate.interp_1d"), ("ex", "xitorch._impls.interpolate.extrap_utils"),
                         ("bc", "xitorch._utils.bcast"), ("ip", "xitorch.interpolate.interp1")):
            _MODS[nm] = importlib.import_module(path)
        _MODS["T"] = arr.make_torch()
    return _MODS


@contextlib.contextmanager
def arr_torch():
    m = mods()
    with kit.patched(m["i1"], "torch", m["T"]), kit.patched(m["ex"], "torch", m["T"]), kit.patched(m["bc"], "torch", m["T"]), \
            kit.patched(m["ip"], "torch", m["T"]):
        yield m


# ---- specification ------------------------------------------------------------------------------------------------
def hermite(xl, xr, yl, yr, kl, kr, q, order=0):
    """the cubic with values yl, yr and slopes kl, kr at xl < xr, and its derivatives, at q"""
    dx = xr - xl
    t = (q - xl) / dx
    if order == 0:
        b = (2 * t * t * t - 3 * t * t + 1, t * t * t - 2 * t * t + t, -2 * t * t * t + 3 * t * t, t * t * t - t * t)
    elif order == 1:
        b = (6 * t * t - 6 * t, 3 * t * t - 4 * t + 1, -6 * t * t + 6 * t, 3 * t * t - 2 * t)
    elif order == 2:
        b = (12 * t - 6, 6 * t - 4, -12 * t + 6, 6 * t - 2)
    else:
        b = (z3.RealVal(12), z3.RealVal(6), z3.RealVal(-12), z3.RealVal(6))
    v = yl * b[0] + dx * kl * b[1] + yr * b[2] + dx * kr * b[3]
    for _ in range(order):
        v = v / dx
    return v


def linear(xl, xr, yl, yr, q):
    return yl + (yr - yl) * (q - xl) / (xr - xl)


def sorted_knots(c, n, name="x"):
    x = arr.sym(name, (n,))
    for k in range(n - 1):
        c.assume(x.a[k] < x.a[k + 1])
    return x


def solved_slopes(c, which=-1):
    """the slope vector(s) K defined by the solved system (A, B, Y): rows of A K = B Y are in the path condition"""
    A, B, Y, K = c.ghost["arr_solve_systems"][which]
    return K


def rows_of_last_system(c, nrows, ncols=1):
    eqs = c.ghost["arr_tagged"]["solve"]
    return eqs[-nrows * ncols:]


def prove_with(c, name, formula, pc, kind="ensures"):
    """prove from a chosen subset of the path condition (dropping hypotheses is sound)"""
    saved = c.pc
    try:
        c.pc = pc
        return c.prove(name, formula, kind=kind)
    finally:
        c.pc = saved


def slope_conditions(c, tag, bc, x, y, K, n, eqs):
    """the slopes make S'' continuous and satisfy the boundary condition; each follows from few rows of the system.
    The proofs use only the rows concerned and the order of the knots, written in the interval widths h_j > 0
    (dropping hypotheses is sound; the substitution x_k = x_0 + h_0 + .. + h_k-1 is a bijection of the ordered grids)."""
    hs = [z3.Real("h%d" % j) for j in range(n - 1)]
    x0 = z3.Real("xfirst")
    sub = []
    acc = x0
    for k in range(n):
        sub.append((x[k], acc))
        if k < n - 1:
            acc = acc + hs[k]
    if not all(z3.is_const(x[k]) for k in range(n)):
        raise OutOfSubset("knots are not plain symbols")
    facts = [h > 0 for h in hs]
    if bc == "periodic":
        facts.append(y[0] == y[n - 1])

    def S(f):
        return z3.simplify(z3.substitute(f, *sub))

    def d(j, order, at_right):
        q = x[j + 1] if at_right else x[j]
        return hermite(x[j], x[j + 1], y[j], y[j + 1], K[j], K[j + 1], q, order)
    for i in range(1, n - 1):
        prove_with(c, "%s:second_derivative_continuous_at_interior_knots" % tag, S(d(i - 1, 2, True) == d(i, 2, False)), facts + [S(eqs[i])])
    ends = facts + [S(eqs[0]), S(eqs[n - 1])]
    if bc == "natural":
        prove_with(c, "%s:natural:second_derivative_zero_at_the_first_knot" % tag, S(d(0, 2, False) == 0), ends)
        prove_with(c, "%s:natural:second_derivative_zero_at_the_last_knot" % tag, S(d(n - 2, 2, True) == 0), ends)
    elif bc == "clamped":
        prove_with(c, "%s:clamped:slope_zero_at_the_first_knot" % tag, K[0] == 0, ends)
        prove_with(c, "%s:clamped:slope_zero_at_the_last_knot" % tag, K[n - 1] == 0, ends)
    elif bc == "not-a-knot":
        prove_with(c, "%s:not-a-knot:third_derivative_continuous_at_the_second_knot" % tag, S(d(0, 3, False) == d(1, 3, False)), ends)
        prove_with(c, "%s:not-a-knot:third_derivative_continuous_at_the_last_but_one_knot" % tag, S(d(n - 3, 3, False) == d(n - 2, 3, False)), ends)
    elif bc == "periodic":
        prove_with(c, "%s:periodic:first_derivative_agrees_at_the_two_ends" % tag, K[0] == K[n - 1], ends)
        prove_with(c, "%s:periodic:second_derivative_agrees_at_the_two_ends" % tag, S(d(0, 2, False) == d(n - 2, 2, True)), ends)


def order_facts(x, n):
    return [x[k] < x[k + 1] for k in range(n - 1)]


def value_obligations(c, tag, method, x, y, K, q, out, n, inrange_known=True):
    """out[p] is the interpolant at q[p]: on every interval that contains q[p]; equals y_j at x_j"""
    only = order_facts(x, n)
    for p in range(len(q)):
        for j in range(n - 1):
            hyp = z3.And(x[j] <= q[p], q[p] <= x[j + 1])
            if method == "linear":
                want = linear(x[j], x[j + 1], y[j], y[j + 1], q[p])
            else:
                want = hermite(x[j], x[j + 1], y[j], y[j + 1], K[j], K[j + 1], q[p])
            arr.prove_cases(c, "%s:value_on_each_sample_interval_is_the_interpolant" % tag, hyp, out[p] == want, only=only)
        for j in range(n):
            arr.prove_cases(c, "%s:sample_value_returned_at_the_sample_position" % tag, q[p] == x[j], out[p] == y[j], only=only)


def unit_interp(method, bc, n, nq, y_at):
    """in-range queries; y_at in {'init', 'call', 'both'}"""
    def run():
        c = ctx()
        x = sorted_knots(c, n)
        y = arr.sym("y", (n,))
        q = arr.sym("q", (nq,))
        for p in range(nq):
            c.assume(z3.And(q.a[p] >= x.a[0], q.a[p] <= x.a[n - 1]))
        if bc == "periodic":
            c.assume(y.a[0] == y.a[n - 1])
        opts = {} if method == "linear" else {"bc_type": bc}
        tag = "%s%s[n=%d,nq=%d,y_at_%s]" % (method, "/" + bc if method != "linear" else "", n, nq, y_at)
        with arr_torch() as m:
            ycall = arr.sym("yother", (n,)) if y_at == "both" else (y if y_at == "call" else None)
            ok, obj = kit.call_or_fail(c, tag + ":constructor_does_not_raise",
                                       lambda: m["ip"].Interp1D(x, y if y_at in ("init", "both") else None, method=method, assume_sorted=True, **opts))
            if not ok:
                return
            with warnings.catch_warnings(record=True) as w:
                warnings.simplefilter("always")
                ok, out = kit.call_or_fail(c, tag + ":call_does_not_raise", lambda: obj(q, ycall) if ycall is not None else obj(q))
            if not ok:
                return
            if y_at == "both":
                c.check(tag + ":y_given_twice_warns_and_uses_the_constructor_value", len(w) + len(c.warnings) >= 1)
            else:
                c.check(tag + ":no_warning", len(w) + len(c.warnings) == 0, detail=str([str(x_.message) for x_ in w][:1]))
        c.check(tag + ":result_has_one_value_per_query", isinstance(out, arr.Tensor) and out.shape == (nq,))
        if not (isinstance(out, arr.Tensor) and out.shape == (nq,)):
            return
        K = None
        if method != "linear":
            K = solved_slopes(c)[:, 0]
            slope_conditions(c, tag, bc, x.a, y.a, K, n, rows_of_last_system(c, n))
        value_obligations(c, tag, method, x.a, y.a, K, q.a, out.a, n)
        c.prove("canary", z3.BoolVal(False), kind="canary")
    return kit.run_unit("%s%s[n=%d,nq=%d,y_at_%s]" % (method, "/" + bc if method != "linear" else "", n, nq, y_at), run)


def unit_interp_generic(method, batched=False):
    """the evaluation of LinearInterp1D / CubicSpline1D (given the slopes) for EVERY number of knots and queries:
    tensors of symbolic length (LAM domain), a generic query position p and a generic interval j"""
    from pydv import lam
    from pydv.core import fresh_int, discharge

    def run():
        c = ctx()
        nr, nq = fresh_int("nr"), fresh_int("nq")
        c.assume(z3.And(nr.e >= 2, nq.e >= 1))
        x, q = lam.sym("x", nr), lam.sym("q", nq)
        bq = ()
        if batched:
            # y (and the slopes) carry a batch dimension of symbolic size; obligations are stated for a generic batch index
            nb = fresh_int("nb")
            c.assume(nb.e >= 1)
            bq = (z3.Int("b"),)
            yv = z3.Function("y", z3.IntSort(), z3.IntSort(), z3.RealSort())
            kv = z3.Function("k", z3.IntSort(), z3.IntSort(), z3.RealSort())
            y = lam.LT((nb, nr), lambda ix: yv(ix[-1], ix[0]), "real")
            ks = lam.LT((nb, nr), lambda ix: kv(ix[-1], ix[0]), "real")
        else:
            y, ks = lam.sym("y", nr), lam.sym("k", nr)
        T = lam.make_torch()
        m = mods()
        tag = "any_size[%s%s]" % (method, ",batched_y" if batched else "")
        with kit.patched(m["i1"], "torch", T), kit.patched(m["bc"], "torch", T):
            cls = m["i1"].LinearInterp1D if method == "linear" else m["i1"].CubicSpline1D
            obj = object.__new__(cls)
            obj.x, obj.y_is_given, obj.y, obj.ks = x, True, y, ks
            ok, out = kit.call_or_fail(c, tag + ":evaluation_does_not_raise", lambda: obj._interp(q, y=y))
        if not ok:
            return
        many = c.branch(nq.e > nr.e)          # which of the two internal formulas ran on this path
        tag = tag + ("[more queries than knots]" if many else "[not more queries than knots]")
        c.check(tag + ":one_value_per_query", isinstance(out, lam.LT) and len(out.shape) == 1 + len(bq) and
                lam._same_dim(out.shape[-1], nq.e) and (not batched or lam._same_dim(out.shape[0], nb.e)))
        searches = c.ghost.get("lam_searches", [])
        c.check(tag + ":one_interval_search", len(searches) == 1)
        if len(searches) != 1:
            return
        rec = searches[0]
        X = lambda i: x.fn((i,))
        Y = lambda i: y.fn(bq + (i,))
        K = lambda i: ks.fn(bq + (i,))
        pp, j = z3.Int("p"), z3.Int("j")
        qp = q.fn((pp,))
        s = rec["f"](pp)
        n = nr.e
        # clamp(s, 1, nr-1): the very term the code builds (same constructor, so the same AST)
        cl = lam.clamp(lam.LT((nq,), lambda idx: rec["f"](idx[-1]), "int"), 1, nr - 1).fn((pp,))
        r = z3.Int("idxr")
        outp = out.fn(bq + (pp,))
        outr = z3.substitute(outp, (cl, r))
        c.check(tag + ":result_depends_on_the_search_only_through_the_clamped_index", "ss0" not in outr.sexpr(), detail=outr.sexpr()[:200])
        pts = [z3.IntVal(0), n - 1, j, j + 1, s - 1, s, cl - 1, cl]
        mono = []
        for a in pts:
            for b in pts:
                if not z3.eq(a, b):
                    mono.append(z3.Implies(z3.And(a >= 0, b < n, a < b), X(a) < X(b)))   # strictly increasing knots, instantiated
        facts = [n >= 2, pp >= 0, pp < nq.e, j >= 0, j <= n - 2, X(j) <= qp, qp <= X(j + 1), X(z3.IntVal(0)) <= qp, qp <= X(n - 1)] \
            + lam.search_facts(rec, pp) + mono + ([bq[0] >= 0, bq[0] < nb.e] if batched else [])
        # every index handed to gather is within the range of the gathered tensor
        for gk, g in enumerate(c.ghost.get("lam_gathers", [])):
            ix = g["index"].fn((bq if len(g["index"].shape) > 1 else ()) + (pp,))
            st_, be, det = discharge(facts, z3.And(ix >= 0, ix < lam._z(g["n"])))
            if st_ != "proved":
                c.prove(tag + ":gather_indices_are_within_range", z3.Implies(z3.And(*facts), z3.And(ix >= 0, ix < lam._z(g["n"]))))
                return
        c.ok(tag + ":gather_indices_are_within_range")
        # the interval found is j, or a neighbour when the query sits on the knot between them
        cases = [("found_interval_is_j", z3.And(cl == j + 1), j + 1), ("query_on_left_knot", z3.And(cl == j, qp == X(j)), j),
                 ("query_on_right_knot", z3.And(cl == j + 2, qp == X(j + 1)), j + 2)]
        prove_with(c, tag + ":search_finds_an_interval_containing_the_query", z3.Or(*[cnd for _, cnd, _ in cases]), facts)
        if method == "linear":
            want = linear(X(j), X(j + 1), Y(j), Y(j + 1), qp)
        else:
            want = hermite(X(j), X(j + 1), Y(j), Y(j + 1), K(j), K(j + 1), qp)
        for nm, cnd, rv in cases:
            g, w_ = z3.substitute(outr, (r, rv)), want
            if nm == "query_on_left_knot":          # the hypothesis q = x_j is used by rewriting
                g, w_ = z3.substitute(g, (qp, X(j))), z3.substitute(w_, (qp, X(j)))
            elif nm == "query_on_right_knot":
                g, w_ = z3.substitute(g, (qp, X(j + 1))), z3.substitute(w_, (qp, X(j + 1)))
            hyps = [X(j) < X(j + 1), X(j - 1) < X(j), X(j + 1) < X(j + 2), cnd, X(j) <= qp, qp <= X(j + 1)]
            prove_with(c, tag + ":value_is_the_interpolant_on_every_interval_containing_the_query[%s]" % nm, z3.simplify(g) == z3.simplify(w_), hyps)
        # sample values at the sample positions follow: q = x_j is in interval j (or j-1 for the last knot)
        c.prove("canary", z3.BoolVal(False), kind="canary")
    return kit.run_unit("any_size[%s%s]" % (method, ",batched_y" if batched else ""), run)


class _KSeq(object):
    """the slope vector: result of the recorded product (solved matrix) @ y"""

    def __init__(self, F, lead=()):
        from pydv import lam
        self.decl, self.lead = F, tuple(lead)
        lam.POSARG[F.name()] = len(self.lead)

    def __getitem__(self, i):
        return self.decl(*(self.lead + (i if isinstance(i, z3.ExprRef) else z3.IntVal(i), z3.IntVal(0))))


def any_size_slope_conditions(c, tag, bc, x, y, n, funcs, periodic_values=True, lead=()):
    """EVERY number of knots (LAM domain): the slopes K = R y, with R the recorded solution of  S R = M  built by the real
    _get_spline_mat_inv on knots of symbolic length, make S'' continuous at every interior knot and satisfy the boundary
    condition.  Row i of  S K = M y  (matrix associativity, trusted) is written out from the few non-zero columns of the
    row (proved for a generic column); the spline conditions then follow from one or two rows, as in slope_conditions."""
    from pydv import lam
    from props import anysize as A
    solves = c.ghost.get("lam_solves", [])
    c.check(tag + ":slopes_come_from_the_spline_system", len(solves) == 1, detail="%d systems solved" % len(solves))
    if len(solves) != 1:
        return None
    rec = solves[0]
    S = lambda r_, c_: rec["A"]((r_, c_))
    M = lambda r_, c_: rec["B"]((r_, c_))
    R = rec["R"]
    gi, gc = z3.Int("gK"), z3.Int("gKc")
    Kf = None
    lead = tuple(lead)
    for sr in c.ghost.get("lam_sums", []):
        if len(sr["out_shape"]) == 2 + len(lead) and z3.eq(z3.simplify(sr["summand"](lead + (gi, z3.IntVal(0)), gc)),
                                                          z3.simplify(R(gi, gc) * y.fn((gc,)))):
            Kf = sr["f"]
    c.check(tag + ":slopes_are_the_solved_matrix_times_the_sample_values", Kf is not None)
    if Kf is None:
        return None
    K = _KSeq(Kf, lead)
    X, Y = A.Seq(lambda i: x.fn((i,))), A.Seq(lambda i: y.fn((i,)))
    fs = dict(funcs)
    fs[Kf.name()] = Kf
    i = z3.Int("i")
    base = [n >= 3]

    def row_equation(nm, row, cands, hyps):
        """the written-out row: sum over the candidate columns; obligations: nothing outside the candidates"""
        gS = lambda a: S(row, a) * K[a]
        gM = lambda a: M(row, a) * Y[a]
        A.finite_sum(c, tag + nm, gS, cands, n, hyps, [], "row_of_the_slope_matrix")
        A.finite_sum(c, tag + nm, gM, cands, n, hyps, [], "row_of_the_right_hand_side_matrix")
        return lam.dedupe_sum(gS, cands, n) == lam.dedupe_sum(gM, cands, n)

    def d(j, order, at_right):
        q = X[j + 1] if at_right else X[j]
        return hermite(X[j], X[j + 1], Y[j], Y[j + 1], K[j], K[j + 1], q, order)

    def pts(pairs):
        return [(z3.simplify(p), lb) for p, lb in pairs]
    # interior knots
    hyps = base + [i >= 1, i <= n - 2]
    eq_i = row_equation("[interior row]", i, [i - 1, i, i + 1], hyps)
    P3 = pts([(i - 1, "a"), (i, "b"), (i + 1, "c")])
    A.canon_prove(c, tag + ":second_derivative_continuous_at_interior_knots", d(i - 1, 2, True) == d(i, 2, False), hyps, P3, fs,
                  [eq_i], widths=("x", ["a", "b", "c"]))
    # the two ends
    zero, last = z3.IntVal(0), n - 1
    if bc in ("natural", "clamped"):
        cf, cl = [zero, z3.IntVal(1)], [n - 2, n - 1]
    elif bc == "not-a-knot":
        cf, cl = [zero, z3.IntVal(1), z3.IntVal(2)], [n - 3, n - 2, n - 1]
    else:
        cf, cl = [zero, z3.IntVal(1), n - 2], [z3.IntVal(1), n - 2, n - 1]
    eq_f = row_equation("[first row]", zero, cf, base)
    eq_l = row_equation("[last row]", last, cl, base)
    PF = pts([(zero, "f0"), (z3.IntVal(1), "f1"), (z3.IntVal(2), "f2")])
    PL = pts([(n - 3, "l3"), (n - 2, "l2"), (n - 1, "l1")])
    if bc == "natural":
        A.canon_prove(c, tag + ":natural:second_derivative_zero_at_the_first_knot", d(zero, 2, False) == 0, base, PF, fs, [eq_f], widths=("x", ["f0", "f1", "f2"]))
        A.canon_prove(c, tag + ":natural:second_derivative_zero_at_the_last_knot", d(n - 2, 2, True) == 0, base, PL, fs, [eq_l], widths=("x", ["l3", "l2", "l1"]))
    elif bc == "clamped":
        A.canon_prove(c, tag + ":clamped:slope_zero_at_the_first_knot", K[zero] == 0, base, PF, fs, [eq_f], widths=("x", ["f0", "f1", "f2"]))
        A.canon_prove(c, tag + ":clamped:slope_zero_at_the_last_knot", K[last] == 0, base, PL, fs, [eq_l], widths=("x", ["l3", "l2", "l1"]))
    elif bc == "not-a-knot":
        A.canon_prove(c, tag + ":not-a-knot:third_derivative_continuous_at_the_second_knot", d(zero, 3, False) == d(z3.IntVal(1), 3, False), base, PF, fs,
                      [eq_f], widths=("x", ["f0", "f1", "f2"]))
        A.canon_prove(c, tag + ":not-a-knot:third_derivative_continuous_at_the_last_but_one_knot", d(n - 3, 3, False) == d(n - 2, 3, False), base, PL, fs,
                      [eq_l], widths=("x", ["l3", "l2", "l1"]))
    else:
        per = [Y[zero] == Y[last]]
        for nm, hyp, P, labels, sb in (("[3 knots]", [n == 3], PF, ["f0", "f1", "f2"], [(n, z3.IntVal(3))]),
                                       ("[4 or more knots]", [n >= 4], pts([(zero, "f0"), (z3.IntVal(1), "f1"), (n - 2, "l2"), (n - 1, "l1")]),
                                        ["f0", "f1", "l2", "l1"], None)):
            A.canon_prove(c, tag + ":periodic:first_derivative_agrees_at_the_two_ends" + nm, K[zero] == K[last], base + hyp, P, fs,
                          [eq_f, eq_l] + per, widths=("x", labels), subst=sb)
            A.canon_prove(c, tag + ":periodic:second_derivative_agrees_at_the_two_ends" + nm, d(zero, 2, False) == d(n - 2, 2, True), base + hyp, P, fs,
                          [eq_f, eq_l] + per, widths=("x", labels), subst=sb)
    A.sum_lemmas(c, (2, 3))
    return K


def unit_slopes_any_size_late_y(bc):
    """y given at call time, EVERY number of knots and queries: the slopes are computed inside _interp from the stored
    solved matrix; they satisfy the same spline conditions and the value is the Hermite cubic with THOSE slopes"""
    from pydv import lam
    from pydv.core import fresh_int
    from props import anysize as A

    def run():
        c = ctx()
        nr, nq = fresh_int("nr"), fresh_int("nq")
        n = nr.e
        c.assume(z3.And(n >= 3, nq.e >= 1))
        x, y, q = lam.sym("x", nr), lam.sym("y", nr), lam.sym("q", nq)
        tag = "any_size[slopes/%s,y_at_call]" % bc
        with A.lam_world() as m:
            with kit.patched(m["i1"], "check_periodic_value", lambda y_: None):
                ok, obj = kit.call_or_fail(c, tag + ":constructor_does_not_raise", lambda: m["i1"].CubicSpline1D(x, None, bc_type=bc))
                if not ok:
                    return
                c.check(tag + ":no_slopes_are_stored_without_y", not hasattr(obj, "ks"))
                ok, out = kit.call_or_fail(c, tag + ":evaluation_does_not_raise", lambda: obj._interp(q, y=y))
        if not ok:
            return
        many = c.branch(nq.e > n)
        tag = tag + ("[more queries than knots]" if many else "[not more queries than knots]")
        K = any_size_slope_conditions(c, tag, bc, x, y, n, {"x": x.uf, "y": y.uf})
        if K is None:
            return
        # the value depends on slopes only through K (the recorded product of the solved matrix with THIS y)
        p = z3.Int("p")
        val = out.fn((p,))
        others = [r_["f"].name() for r_ in c.ghost.get("lam_sums", []) if not r_["f"].eq(K.decl)]
        txt = val.sexpr()
        c.check(tag + ":the_evaluation_uses_the_slopes_of_the_values_given_at_the_call", K.decl.name() in txt and not any(("(%s " % o) in txt for o in others))
        # ... and is the Hermite cubic with those slopes: the formula obligations of any_size[cspline] apply to any slope vector;
        # here: identical term when the stored-slope object is fed the same K
        obj2 = object.__new__(type(obj))
        obj2.x, obj2.y_is_given, obj2.y = x, True, y
        obj2.ks = lam.LT((nr,), lambda ix: K[ix[-1]], "real")
        with A.lam_world() as m:
            out2 = obj2._interp(q, y=y)
        s1 = c.ghost.get("lam_searches", [])
        if len(s1) == 2:
            v2 = z3.substitute(out2.fn((p,)), (s1[1]["f"](p), s1[0]["f"](p)))
            c.check(tag + ":same_value_as_with_these_slopes_stored_at_construction", z3.eq(z3.simplify(val), z3.simplify(v2)))
        c.prove("canary", z3.BoolVal(False), kind="canary")
    return kit.run_unit("any_size[slopes/%s,y_at_call]" % bc, run)


def unit_slopes_any_size(bc, batched=False):
    """CubicSpline1D.__init__ on knots and values of symbolic length: the slope system for EVERY number of knots
    (batched: y with a batch dimension of symbolic size; the conditions hold for the slopes of every line of y)"""
    from pydv import lam
    from pydv.core import fresh_int
    from props import anysize as A

    def run():
        c = ctx()
        nr = fresh_int("nr")
        n = nr.e
        c.assume(n >= 3)
        x, y = lam.sym("x", nr), lam.sym("y", nr)
        lead = ()
        yfull = y
        if batched:
            nb = fresh_int("nb")
            c.assume(nb.e >= 1)
            bb = z3.Int("b")
            c.assume(z3.And(bb >= 0, bb < nb.e))
            lead = (bb,)
            yv = z3.Function("y", z3.IntSort(), z3.IntSort(), z3.RealSort())
            yfull = lam.LT((nb, nr), lambda ix: yv(ix[-1], ix[0]), "real")
            y = A.Seq(lambda i: yv(i, bb))          # the generic line
            y.fn = lambda ix: yv(ix[-1], bb)
            y.uf = yv
        tag = "any_size[slopes/%s%s]" % (bc, ",batched_y" if batched else "")
        with A.lam_world() as m:
            with kit.patched(m["i1"], "check_periodic_value", lambda y_: None):     # its contract: y[0] == y[-1] (a precondition below)
                ok, obj = kit.call_or_fail(c, tag + ":constructor_does_not_raise", lambda: m["i1"].CubicSpline1D(x, yfull, bc_type=bc))
        if not ok:
            return
        K = any_size_slope_conditions(c, tag, bc, x, y, n, {"x": x.uf, "y": y.uf}, lead=lead)
        if K is None:
            return
        # the slopes the evaluation uses are these
        p = z3.Int("p")
        c.check(tag + ":the_evaluation_uses_these_slopes", isinstance(obj.ks, lam.LT) and z3.eq(z3.simplify(obj.ks.fn(lead + (p,))), z3.simplify(K[p])))
        c.prove("canary", z3.BoolVal(False), kind="canary")
    return kit.run_unit("any_size[slopes/%s%s]" % (bc, ",batched_y" if batched else ""), run)


def unit_no_y(method):
    def run():
        c = ctx()
        x = sorted_knots(c, 4)
        q = arr.sym("q", (2,))
        with arr_torch() as m:
            obj = m["ip"].Interp1D(x, method=method, assume_sorted=True)
            try:
                obj(q)
                c.fail("%s:no_y_at_all_is_rejected" % method, "no exception")
            except RuntimeError:
                c.ok("%s:no_y_at_all_is_rejected" % method)
            try:
                m["ip"].Interp1D(x, method="quadratic")
                c.fail("unknown_method_is_rejected", "no exception")
            except RuntimeError:
                c.ok("unknown_method_is_rejected")
            if method == "cspline":
                try:
                    m["ip"].Interp1D(x, method=method, bc_type="free")
                    c.fail("unknown_boundary_condition_is_rejected", "no exception")
                except RuntimeError:
                    c.ok("unknown_boundary_condition_is_rejected")
                # default method and default boundary condition
                obj = m["ip"].Interp1D(x, assume_sorted=True)
                c.check("default_method_is_cspline_with_not-a-knot", type(obj.obj).__name__ == "CubicSpline1D" and obj.obj.bc_type == "not-a-knot")
    return kit.run_unit("rejections[%s]" % method, run)


def unit_unsorted(method, perm, y_at):
    """samples given in a shuffled order: (x, y) pairs are sorted together"""
    n = len(perm)

    def run():
        c = ctx()
        s = sorted_knots(c, n, "s")
        yu = arr.sym("yu", (n,))
        xu = arr.Tensor([s.a[perm[i]] for i in range(n)])          # user's x[i] = s[perm[i]]
        ys = [None] * n
        for i in range(n):
            ys[perm[i]] = yu.a[i]                                    # the value belonging to s[k]
        q = arr.sym("q", (2,))
        for p in range(2):
            c.assume(z3.And(q.a[p] >= s.a[0], q.a[p] <= s.a[n - 1]))
        tag = "unsorted[%s,%s,y_at_%s]" % (method, "".join(map(str, perm)), y_at)
        opts = {} if method == "linear" else {"bc_type": "natural"}
        with arr_torch() as m:
            ok, out = kit.call_or_fail(c, tag + ":does_not_raise", lambda: (
                m["ip"].Interp1D(xu, yu, method=method, **opts)(q) if y_at == "init" else m["ip"].Interp1D(xu, method=method, **opts)(q, yu)))
        if not ok:
            return
        K = None
        if method != "linear":
            K = solved_slopes(c)[:, 0]
            slope_conditions(c, tag, "natural", s.a, ys, K, n, rows_of_last_system(c, n))
        value_obligations(c, tag, method, s.a, ys, K, q.a, out.a, n)
    return kit.run_unit("unsorted[%s,%s,y_at_%s]" % (method, "".join(map(str, perm)), y_at), run)


def unit_reuse(method):
    """one Interp1D object (unsorted samples, y at call time) used repeatedly with y of different batch shapes: every call
    gives the interpolant of the y it was given (the object is not changed by a call)"""
    perm = (2, 0, 3, 1)
    n = len(perm)

    def run():
        c = ctx()
        s = sorted_knots(c, n, "s")
        xu = arr.Tensor([s.a[perm[i]] for i in range(n)])
        q = arr.sym("q", (2,))
        for p in range(2):
            c.assume(z3.And(q.a[p] >= s.a[0], q.a[p] <= s.a[n - 1]))
        tag = "reuse[%s]" % method
        with arr_torch() as m:
            obj = m["ip"].Interp1D(xu, method=method)
            ys_seq = [arr.sym("ya", (2, n)), arr.sym("yb", (n,)), arr.sym("yc", (3, n))]
            outs = []
            for k, yk in enumerate(ys_seq):
                ok, out = kit.call_or_fail(c, tag + ":call_%d_does_not_raise" % k, lambda yk=yk: obj(q, yk))
                if not ok:
                    return
                outs.append(out)
        for k, (yk, out) in enumerate(zip(ys_seq, outs)):
            want_shape = tuple(yk.shape[:-1]) + (2,)
            c.check(tag + ":call_%d_result_has_the_batch_shape_of_its_own_y" % k, out.shape == want_shape, detail="shape %s, expected %s" % (out.shape, want_shape))
            if out.shape != want_shape:
                continue
            if method == "linear":
                rows = [()] if len(yk.shape) == 1 else [(b,) for b in range(yk.shape[0])]
                for b in rows:
                    ysrt = [None] * n
                    for i in range(n):
                        ysrt[perm[i]] = yk.a[b + (i,)]
                    value_obligations(c, tag + "[call %d]" % k, method, s.a, ysrt, None, q.a, out.a[b] if b else out.a, n)
    return kit.run_unit("reuse[%s]" % method, run)


def unit_batched_x(bc):
    """batched sample positions (every batch element has its own grid): each row is its own spline"""
    n, nq, nb = 4, 2, 2

    def run():
        c = ctx()
        x = arr.sym("x", (nb, n))
        for b in range(nb):
            for k in range(n - 1):
                c.assume(x.a[b, k] < x.a[b, k + 1])
        y = arr.sym("y", (nb, n))
        q = arr.sym("q", (nb, nq))
        for b in range(nb):
            for p in range(nq):
                c.assume(z3.And(q.a[b, p] >= x.a[b, 0], q.a[b, p] <= x.a[b, n - 1]))
            if bc == "periodic":
                c.assume(y.a[b, 0] == y.a[b, n - 1])
        tag = "batched_x[cspline/%s]" % bc
        with arr_torch() as m:
            ok, out = kit.call_or_fail(c, tag + ":does_not_raise", lambda: m["ip"].Interp1D(x, y, method="cspline", assume_sorted=True, bc_type=bc)(q))
        if not ok:
            return
        c.check(tag + ":result_shape_is_batch_by_queries", out.shape == (nb, nq))
        if out.shape != (nb, nq):
            return
        Kall = solved_slopes(c)
        eqs_all = c.ghost["arr_tagged"]["solve"][-nb * n:]
        for b in range(nb):
            K = Kall[b, :, 0]
            slope_conditions(c, tag + "[row %d]" % b, bc, x.a[b], y.a[b], K, n, eqs_all[b * n:(b + 1) * n])
            value_obligations(c, tag + "[row %d]" % b, "cspline", x.a[b], y.a[b], K, q.a[b], out.a[b], n)
    return kit.run_unit("batched_x[cspline/%s]" % bc, run)


def unit_batched(method, y_at):
    n, nq, nb = 4, 2, 2

    def run():
        c = ctx()
        x = sorted_knots(c, n)
        y = arr.sym("y", (nb, n))
        q = arr.sym("q", (nq,))
        for p in range(nq):
            c.assume(z3.And(q.a[p] >= x.a[0], q.a[p] <= x.a[n - 1]))
        tag = "batched_y[%s,y_at_%s]" % (method, y_at)
        opts = {} if method == "linear" else {"bc_type": "clamped"}
        with arr_torch() as m:
            ok, out = kit.call_or_fail(c, tag + ":does_not_raise", lambda: (
                m["ip"].Interp1D(x, y, method=method, assume_sorted=True, **opts)(q) if y_at == "init"
                else m["ip"].Interp1D(x, method=method, assume_sorted=True, **opts)(q, y)))
        if not ok:
            return
        c.check(tag + ":result_shape_is_batch_by_queries", out.shape == (nb, nq))
        if out.shape != (nb, nq):
            return
        Kall = solved_slopes(c) if method != "linear" else None
        for b in range(nb):
            K = None
            if method != "linear":
                K = Kall[b, :, 0]
                eqs = c.ghost["arr_tagged"]["solve"][-nb * n:][b * n:(b + 1) * n]
                slope_conditions(c, tag + "[row %d]" % b, "clamped", x.a, y.a[b], K, n, eqs)
            value_obligations(c, tag + "[row %d]" % b, method, x.a, y.a[b], K, q.a, out.a[b], n)
    return kit.run_unit("batched_y[%s,y_at_%s]" % (method, y_at), run)


def unit_extrap(method, mode, n=4):
    """queries anywhere on the real line (each is inside or outside: the path forks)"""
    nq = 2

    def run():
        c = ctx()
        x = sorted_knots(c, n)
        y = arr.sym("y", (n,))
        q = arr.sym("q", (nq,))
        tag = "extrap[%s,%s]" % (method, mode)
        opts = {} if method == "linear" else {"bc_type": "natural"}
        cval = None
        if mode in ("constant", "zero_constant", "int_zero_constant"):
            cval = {"constant": 2.5, "zero_constant": 0.0, "int_zero_constant": 0}[mode]     # a constant that happens to be falsy is a constant too
            opts["extrap"] = cval
        elif mode == "tensor_constant":
            cval = arr.sym("cval", (1,))
            opts["extrap"] = cval
        elif mode == "callable":
            gq = []

            def g(xq):
                gq.append(xq)
                return arr.Tensor([z3.Function("g", z3.RealSort(), z3.RealSort())(e) for e in xq.a])
            opts["extrap"] = g
        elif mode == "default_clamped":
            opts["bc_type"] = "clamped"
        elif mode == "default_periodic":
            opts["bc_type"] = "periodic"
            c.assume(y.a[0] == y.a[n - 1])
        elif mode == "default_other":
            pass
        else:
            opts["extrap"] = mode
            if mode == "periodic":
                c.assume(y.a[0] == y.a[n - 1])
        eff = {"default_clamped": "mirror", "default_periodic": "periodic", "default_other": "nan", "zero_constant": "constant",
               "int_zero_constant": "constant"}.get(mode, mode)
        seen = []
        with arr_torch() as m:
            ok, obj = kit.call_or_fail(c, tag + ":constructor_does_not_raise", lambda: m["ip"].Interp1D(x, y, method=method, assume_sorted=True, **opts))
            if not ok:
                return
            inner = obj.obj
            real_interp = inner._interp
            real_pos = m["i1"].get_extrap_pos

            def pos_named(*a, **k):
                arr.NAME_DIV[0] = True      # the normalised position is one named quantity (observation only)
                try:
                    return real_pos(*a, **k)
                finally:
                    arr.NAME_DIV[0] = False
            m["i1"].get_extrap_pos = pos_named

            def spy(xq, y=None):
                seen.append(xq)
                return real_interp(xq, y=y)
            inner._interp = spy
            try:
                ok, out = kit.call_or_fail(c, tag + ":call_does_not_raise", lambda: obj(q))
            finally:
                m["i1"].get_extrap_pos = real_pos
        if not ok:
            return
        c.check(tag + ":one_value_per_query", isinstance(out, arr.Tensor) and out.shape == (nq,))
        if not (isinstance(out, arr.Tensor) and out.shape == (nq,)):
            return
        K = solved_slopes(c)[:, 0] if method != "linear" else None
        xa, ya = x.a, y.a
        L = xa[n - 1] - xa[0]
        base = arr.pc_without(c, "solve")
        # the range ends the code computed (named extrema) are the first and last knot
        eqs_ = []
        for nm, (v, fold) in c.ghost.get("arr_named", {}).items():
            eqs_.append((v, xa[0] if nm.startswith("min") else xa[n - 1]))

        def prove_sub(name, formula, split_first=False):
            return arr.prove_cases(c, name, z3.BoolVal(True), formula, equalities=eqs_, split_first=split_first)

        def interp_at(pos, val, name):
            """val is the interpolant at pos (pos provably in range)"""
            ab = ()
            if not z3.is_const(pos):
                ab = ((pos, z3.Real(c.fresh("position"))),)     # the interpolation is a function of the position only
            for j in range(n - 1):
                want = linear(xa[j], xa[j + 1], ya[j], ya[j + 1], pos) if method == "linear" else \
                    hermite(xa[j], xa[j + 1], ya[j], ya[j + 1], K[j], K[j + 1], pos)
                arr.prove_cases(c, name, z3.And(xa[j] <= pos, pos <= xa[j + 1]), val == want, equalities=eqs_, only=order_facts(xa, n),
                                abstract=ab)
        for p in range(nq):
            inside = arr.branch_tagged(z3.And(q.a[p] >= xa[0], q.a[p] <= xa[n - 1]))
            if inside:
                interp_at(q.a[p], out.a[p], tag + ":inside_queries_are_interpolated")
                continue
            if eff == "nan":
                c.check(tag + ":outside_value_is_nan", z3.eq(z3.simplify(out.a[p]), arr.NAN))
            elif eff in ("constant", "tensor_constant"):
                want = z3.RealVal(repr(float(cval))) if eff == "constant" else cval.a[0]
                prove_sub(tag + ":outside_value_is_the_constant", out.a[p] == want)
            elif eff == "callable":
                prove_sub(tag + ":outside_value_is_the_callable_at_the_query", out.a[p] == z3.Function("g", z3.RealSort(), z3.RealSort())(q.a[p]))
            else:
                # mapped into the range: find the position handed to the interpolation
                if not (len(seen) == 1 and seen[0].shape == (nq,)):
                    # the harness observes the mapped positions as the argument of the single interpolation call; another
                    # (equally valid) structure of the code is not a violation: undecided, the concrete oracle decides
                    raise OutOfSubset("mapped positions are not observable (interpolation called %d times)" % len(seen))
                pos = seen[0].a[p]
                u = (q.a[p] - xa[0]) / L
                # the code's own normalised position (a named quotient) is this u: identified syntactically after the
                # proved replacement of the range ends
                U = None
                for d_ in c.ghost.get("arr_tagged", {}).get("quot", []):
                    rhs = z3.simplify(z3.substitute(d_.arg(1), *eqs_)) if eqs_ else z3.simplify(d_.arg(1))
                    if z3.eq(rhs, z3.simplify(u)):
                        U = d_.arg(0)
                if U is None and eff in ("periodic", "mirror"):
                    c.fail(tag + ":normalised_position_is_(q-x0)/(xlast-x0)", "no quotient of that form was computed")
                    return
                if U is not None:
                    u = U
                if eff == "bound":
                    prove_sub(tag + ":bound:outside_position_is_the_nearest_end", pos == z3.If(q.a[p] < xa[0], xa[0], xa[n - 1]))
                elif eff == "periodic":
                    # pos = q - m L for the integer m = floor((q - x0)/L), and x0 <= pos < x0 + L
                    mm = arr.floor_named(u)
                    prove_sub(tag + ":periodic:outside_position_is_the_query_shifted_by_whole_periods_into_the_range",
                              z3.And(pos == q.a[p] - z3.ToReal(mm) * L, pos >= xa[0], pos < xa[n - 1]))
                elif eff == "mirror":
                    au = z3.If(u >= 0, u, -u)
                    f = arr.floor_named(au)
                    r = au - z3.ToReal(f)
                    tri = z3.If(f % 2 == 0, r, 1 - r)
                    prove_sub(tag + ":mirror:outside_position_is_the_triangle_wave_reflection", pos == xa[0] + tri * L, split_first=True)
                prove_sub(tag + ":mapped_position_is_inside_the_range", z3.And(pos >= xa[0], pos <= xa[n - 1]), split_first=(eff == "mirror"))
                interp_at(pos, out.a[p], tag + ":outside_value_is_the_interpolant_at_the_mapped_position")
        c.prove("canary", z3.BoolVal(False), kind="canary")
    return kit.run_unit("extrap[%s,%s]" % (method, mode), run)


def unit_extrap_batched():
    def run():
        c = ctx()
        n = 3
        x = sorted_knots(c, n)
        y = arr.sym("y", (2, n))
        q = arr.sym("q", (2, 2))
        c.assume(q.a[0, 0] > x.a[n - 1])
        with arr_torch() as m:
            obj = m["ip"].Interp1D(x, y, method="linear", assume_sorted=True, extrap=0.0)
            try:
                obj(q)
                c.fail("batched_queries_with_extrapolation_are_rejected", "no exception")
            except NotImplementedError:
                c.ok("batched_queries_with_extrapolation_are_rejected")
    return kit.run_unit("extrap_batched", run)


def unit_gradients_bounded():
    """bounded stand-in on real torch (never counted as proved): derivatives w.r.t. y and the query points against
    central differences, inside the range and for every extrapolation mode that maps queries into the range"""
    import re

    def run():
        c = ctx()
        r = kit.concrete_replay("C14", ["query_and_value_gradients"])
        c.check("bounded[real torch].oracle_ran", r["returncode"] in (0, 1), detail=r["output"][-300:], kind="bounded")
        for name, verdict in re.findall(r"ORACLE (\S+): (holds|VIOLATED[^\n]*)", r["output"]):
            c.check("bounded[real torch,central differences].%s" % name, verdict == "holds", detail=verdict[:500], kind="bounded")
    return kit.run_unit("gradients_bounded", run)


def units(tier):
    us = []

    def add(name, f):
        us.append((name, f))
    for n, nq, y_at in ((3, 1, "init"), (4, 5, "init"), (4, 2, "call"), (5, 2, "both"), (3, 4, "call")):
        add("linear[n=%d,nq=%d,y_at_%s]" % (n, nq, y_at), lambda n=n, nq=nq, y_at=y_at: unit_interp("linear", None, n, nq, y_at))
    cs = [("natural", 3, 1, "init"), ("natural", 4, 5, "call"), ("natural", 5, 2, "init"), ("clamped", 3, 4, "init"), ("clamped", 4, 2, "call"),
          ("clamped", 5, 6, "init"), ("not-a-knot", 3, 1, "call"), ("not-a-knot", 4, 2, "init"), ("not-a-knot", 5, 6, "call"),
          ("not-a-knot", 6, 2, "init"), ("periodic", 3, 2, "init"), ("periodic", 4, 5, "init"), ("periodic", 5, 2, "call"),
          ("periodic", 6, 7, "init"), ("natural", 6, 2, "both")]
    if tier == "thorough":
        cs += [("natural", 6, 7, "call"), ("clamped", 6, 7, "call"), ("not-a-knot", 6, 7, "init"), ("periodic", 6, 2, "call"),
               ("not-a-knot", 4, 5, "call"), ("clamped", 5, 2, "both")]
    for bc, n, nq, y_at in cs:
        add("cspline/%s[n=%d,nq=%d,y_at_%s]" % (bc, n, nq, y_at), lambda bc=bc, n=n, nq=nq, y_at=y_at: unit_interp("cspline", bc, n, nq, y_at))
    for mth in ("linear", "cspline"):
        add("any_size[%s]" % mth, lambda mth=mth: unit_interp_generic(mth))
        add("any_size[%s,batched_y]" % mth, lambda mth=mth: unit_interp_generic(mth, batched=True))
        add("rejections[%s]" % mth, lambda mth=mth: unit_no_y(mth))
        for perm, y_at in (((2, 0, 3, 1), "init"), ((2, 0, 3, 1), "call"), ((3, 2, 1, 0), "call"), ((1, 2, 0), "init")):
            add("unsorted[%s,%s,y_at_%s]" % (mth, "".join(map(str, perm)), y_at), lambda mth=mth, perm=perm, y_at=y_at: unit_unsorted(mth, perm, y_at))
        for y_at in ("init", "call"):
            add("batched_y[%s,y_at_%s]" % (mth, y_at), lambda mth=mth, y_at=y_at: unit_batched(mth, y_at))
        add("reuse[%s]" % mth, lambda mth=mth: unit_reuse(mth))
    for bc in ("natural", "clamped", "not-a-knot", "periodic"):
        add("any_size[slopes/%s]" % bc, lambda bc=bc: unit_slopes_any_size(bc))
        add("any_size[slopes/%s,y_at_call]" % bc, lambda bc=bc: unit_slopes_any_size_late_y(bc))
        add("any_size[slopes/%s,batched_y]" % bc, lambda bc=bc: unit_slopes_any_size(bc, batched=True))
    for bc in ("natural", "clamped", "not-a-knot"):
        add("batched_x[cspline/%s]" % bc, lambda bc=bc: unit_batched_x(bc))
    for mth, mode in (("linear", "nan"), ("linear", "constant"), ("linear", "tensor_constant"), ("linear", "callable"), ("linear", "bound"),
                      ("linear", "mirror"), ("linear", "periodic"), ("cspline", "nan"), ("cspline", "bound"), ("cspline", "mirror"),
                      ("cspline", "periodic"), ("cspline", "default_clamped"), ("cspline", "default_periodic"), ("cspline", "default_other"),
                      ("cspline", "callable"), ("cspline", "zero_constant"), ("cspline", "int_zero_constant"), ("linear", "zero_constant")):
        add("extrap[%s,%s]" % (mth, mode), lambda mth=mth, mode=mode: unit_extrap(mth, mode))
    add("extrap_batched", unit_extrap_batched)
    add("gradients_bounded", unit_gradients_bounded)
    return us
