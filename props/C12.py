"""C12 - quad applies an exact n-point Gauss-Legendre rule."""
import z3

from pydv import core, kit, loopcut, alg
from pydv import stubtorch as st
from pydv.core import ctx, fresh_int, fresh_real, OutOfSubset

CLAIM = {
    "claimed": True,
    "category": "proof",
    "text": "leggauss, for every number of nodes n (loop cut at the partial-sum invariant), every pair of limits and every "
            "integrand: the result is sum_{i<n} (w_i (xu-xl)/2) f(x_i (xu-xl)/2 + (xu+xl)/2) with (x_i, w_i) the nodes "
            "and weights returned by numpy for that n, exactly one evaluation per node, the integrand's own tensors "
            "are not modified. _Quadrature.forward: limits given as numbers or tensors reach the rule as tensors of the "
            "integrand's dtype; if a limit is infinite both limits are mapped through atan and the integrand becomes "
            "f(tan t) (1 + tan^2 t) (the exact substitution x = tan t); the selected rule is called once with these and "
            "the caller's options and its result is returned; quad rejects multi-element limits and applies the rule "
            "to flatten(f) for tuple outputs, packing the result. Exactness for polynomials of degree <= 2n-1, "
            "additivity and antisymmetry then follow from the exactness of numpy's nodes (assumed) and the affine "
            "change of variables.",
    "note": "Trusted: numpy.polynomial.legendre.leggauss returns the n-point Gauss-Legendre rule on [-1, 1] "
            "(sanity-checked numerically in the replay oracle); tan/atan/cos as uninterpreted functions with "
            "tan(atan x) = x, cos^2 (1 + tan^2) = 1; floats as reals; stub torch; z3.",
    "design_ref": "DESIGN.md section 6 C12",
}

META = {
    "level": "proof",
    "files": ["xitorch/_impls/integrate/fixed_quad.py", "xitorch/integrate/quad.py"],
    "functions_under_contract": ["xitorch._impls.integrate.fixed_quad:leggauss", "xitorch.integrate.quad:quad",
                                 "xitorch.integrate.quad:_Quadrature.forward", "xitorch.integrate.quad:_TanInfTransform",
                                 "xitorch.integrate.quad:_isinf"],
    "trusted_base": ["numpy.polynomial.legendre.leggauss is the n-point Gauss-Legendre rule (exact to degree 2n-1)",
                     "tan / atan / cos: uninterpreted with the two identities used", "floats are reals", "stub torch", "z3"],
    "assumptions": ["numpy nodes and weights exact", "floats are reals"],
    "not_applicable_parts": ["decaying integrands over infinite ranges are integrated to quadrature accuracy (approximation theory)"],
    "min_obligations": 20,
}


def replay(name, first_bad):
    if name.startswith("leggauss"):
        return kit.concrete_replay("C12", ["polynomial_exactness", "constant_integrand_not_modified"])
    return kit.concrete_replay("C12", ["infinite_limits", "limit_forms", "tuple_output", "polynomial_exactness"])


def _mods():
    import importlib
    fq = importlib.import_module("xitorch._impls.integrate.fixed_quad")
    qd = importlib.import_module("xitorch.integrate.quad")
    for m in (fq, qd):
        core.inject_builtins(m)
    return fq, qd


class _FakeNumpy(object):
    """contract of numpy.polynomial.legendre.leggauss(n): two sequences of length n"""

    def __init__(self, holder):
        outer = self

        class _L(object):
            @staticmethod
            def leggauss(n):
                holder["n"] = n
                holder["xlg"] = kit.SeqTensor("xlg", n)
                holder["wlg"] = kit.SeqTensor("wlg", n)
                holder["x_fn"], holder["w_fn"] = holder["xlg"]._fn, holder["wlg"]._fn
                return holder["xlg"], holder["wlg"]

        class _P(object):
            legendre = _L
        self.polynomial = _P


def unit_leggauss(const_integrand=False):
    fq, qd = _mods()
    rw = loopcut.rewrite(fq.leggauss)
    lid = list(rw.loops)[0]
    stt = loopcut.REGISTRY[lid]
    stt.split_first = False
    stt.peel_last = True      # the state after the loop is the state after the last iteration (or the entry state)
    holder = {}
    f = kit.UserFn("f", shape_like=1, out_shape=(3,), vaxes=(0,))
    cparam = {}

    def integrand(x, p):
        if const_integrand:
            return cparam["c"]        # returns one of the caller's own tensors
        return f(x, p)

    def node(i):
        xl, xu = holder["xl"], holder["xu"]
        ie = i.e if hasattr(i, "e") else z3.IntVal(i)
        half = (xu - xl) * 0.5
        return st.Tensor("sc", alg.Sc(holder["x_fn"](ie)), (), xu.dtype) * half + (xu + xl) * 0.5, \
            st.Tensor("sc", alg.Sc(holder["w_fn"](ie)), (), xu.dtype) * half

    def term(i):
        x, w = node(i)
        return w * integrand(x, holder["p"])

    def inv(env, entry):
        ph = env["__phase"]
        if ph == "entry":
            return [("partial_sum_starts_with_node_0", env["res"].v.eq(term(0).v))]
        if ph == "end":
            head = env["__head"]
            loop = env["__loop"]
            i = loop._target
            ncalls = len([1 for nm, _ in ctx().calls[loop.head_ncalls:] if nm == "f"])
            out = [("iteration_i_adds_exactly_w_i_f(x_i)", env["res"].v.eq((head["res_value"] + term(i)).v))]
            if not const_integrand:
                out.append(("one_evaluation_per_node", ncalls == 1))
            return out
        return []
    stt.user_invariants = inv

    def define_res(hv, entry, loop):
        # the partial sum after nodes 0..i-1 (specification sequence, defined by the recurrence checked above)
        i = loop._target if loop._target is not None else core.SInt(z3.If(loop.it.hi_e >= loop.it.lo_e, loop.it.hi_e, loop.it.lo_e))
        atom = alg.fn_apply("partial_sum", [("sc", alg.Sc.of(i))])
        t = st.Tensor("vec", alg.Vec({atom: alg.ONE}), (3,), st.float64, (0,))
        return t
    stt.user_define = {"res": define_res}

    def havoc(env, entry, loop):
        loop.head["res_value"] = st.Tensor("vec", env["res"].v, (3,), st.float64, (0,))
    stt.user_havoc = havoc

    def run():
        c = ctx()
        n = fresh_int("n")
        c.assume(n.e >= 1)
        xl, xu = st.scalar("xl"), st.scalar("xu")
        p = st.vec("p", (2,), (0,))
        holder.update(xl=xl, xu=xu, p=p)
        cparam["c"] = st.vec("const", (3,), (0,))
        with kit.patched(fq, "np", _FakeNumpy(holder)):
            res = rw.fn(integrand, xl, xu, (p,), n=n)
        c.cover("returned")
        c.check("nodes_requested_for_the_callers_n", holder.get("n") is n)
        # at exit the result is the specification's partial sum after n nodes
        if c.branch(n.e == 1):
            c.prove("n=1:result_is_w_0_f(x_0)", res.v.eq(term(0).v))
        else:
            # the value after the last iteration i = n-1: partial_sum(n-1) + w_{n-1} f(x_{n-1})
            atom = alg.fn_apply("partial_sum", [("sc", alg.Sc.of(n - 1))])
            kit.prove_vec(c, "result_is_the_sum_over_all_n_nodes", res, alg.Vec({atom: alg.ONE}) + term(n - 1).v)
        if const_integrand:
            c.check("integrand_tensors_are_not_modified_in_place", cparam["c"]._version == 0 and cparam["c"].kind == "vec"
                    and z3.is_true(z3.simplify(cparam["c"].v.eq(alg.Vec.base("const")))))
        c.prove("canary", z3.BoolVal(False), kind="canary")
    ur = kit.run_unit("leggauss[const]" if const_integrand else "leggauss", run)
    ur.rewrites.append({"function": "fixed_quad.leggauss", "diff_lines": rw.diff.count("\n")})
    return ur


class _PF(object):
    """contract-level PureFunction for the forward: disable_state_change must be used"""

    def __init__(self, fn):
        self.fn = fn
        self.locked = 0

    def __call__(self, *a):
        return self.fn(*a)

    def objparams(self):
        return []

    def disable_state_change(self):
        import contextlib
        pf = self

        @contextlib.contextmanager
        def cm():
            pf.locked += 1
            try:
                yield
            finally:
                pf.locked -= 1
        return cm()


def unit_forward():
    fq, qd = _mods()
    import xitorch._core.pure_function as pfm

    def run():
        c = ctx()
        f = kit.UserFn("f", shape_like=0, out_shape=(3,), vaxes=(0,))
        p = st.vec("p", (2,), (0,))
        forms = ["tensor32", "tensor64", "number", "inf"]
        kl = forms[c.choose(4, "xl_form")]
        ku = forms[c.choose(4, "xu_form")]

        def mk(kind, name):
            if kind == "tensor32":
                return st.scalar(name, (), dtype=st.float32)
            if kind == "tensor64":
                return st.scalar(name, (), dtype=st.float64)
            if kind == "number":
                return fresh_real(name)
            return float("inf") if name == "xu" else -float("inf")
        xl, xu = mk(kl, "xl"), mk(ku, "xu")
        log = []
        res = st.vec("result", (3,), (0,))

        def rule(fcn2, tl, tu, params, **cfg):
            log.append((fcn2, tl, tu, params, cfg, pf.locked))
            return res
        pf = _PF(lambda x, p_: f(x, p_))
        fctx = st.FunctionCtx()
        with kit.patched(qd, "leggauss", rule), kit.patched(qd, "make_sibling", lambda fn: (lambda g: g)):
            out = qd._Quadrature.forward(fctx, pf, xl, xu, {"method": "leggauss", "n": 7}, {}, 1, st.float64, st._cpu, p)
        c.check("rule_called_once", len(log) == 1)
        c.check("result_returned_unchanged", out is res)
        if len(log) != 1:
            return
        fcn2, tl, tu, params, cfg, locked = log[0]
        c.check("rule_gets_params_and_options_without_method", tuple(params) == (p,) and cfg == {"n": 7})
        c.check("rule_runs_with_state_change_disabled", locked == 1 and pf.locked == 0)
        c.check("limits_reach_the_rule_as_tensors_of_the_integrand_dtype", isinstance(tl, st.Tensor) and isinstance(tu, st.Tensor)
                and tl.dtype is st.float64 and tu.dtype is st.float64)

        def val(x):
            return x.v.re if isinstance(x, st.Tensor) else core.to_real_expr(x)
        t = st.scalar("t")
        if "inf" in (kl, ku):
            c.cover("infinite limit")
            lo = -st.PI_HALF if kl == "inf" else st._atan(val(xl))
            hi = st.PI_HALF if ku == "inf" else st._atan(val(xu))
            c.prove("both_limits_are_mapped_through_atan", z3.And(tl.v.re == lo, tu.v.re == hi))
            with st.no_grad():
                got = fcn2(t, p)
            xt = st.Tensor("sc", alg.Sc(st._tan(t.v.re)), (), st.float64)
            want = f(xt, p) * st.Tensor("sc", alg.Sc(1 + st._tan(t.v.re) * st._tan(t.v.re)), (), st.float64)
            kit.prove_vec(c, "integrand_is_f(tan t)(1+tan^2 t):the_substitution_x=tan_t", got, want.v)
        else:
            c.cover("finite limits")
            c.prove("finite_limits_passed_through", z3.And(tl.v.re == val(xl), tu.v.re == val(xu)))
            with st.no_grad():
                kit.prove_vec(c, "integrand_is_f", fcn2(t, p), f(t, p).v)
        c.prove("canary", z3.BoolVal(False), kind="canary")
    return kit.run_unit("forward", run)


def unit_quad_frontend():
    fq, qd = _mods()

    def run():
        c = ctx()
        cap = {}

        class Fake(object):
            @staticmethod
            def apply(*a):
                cap["a"] = a
                return st.vec("flat", (5,), (0,))
        f1, f2 = st.vec("f1", (2,), (0,)), st.vec("f2", (3,), (0,))
        p = st.vec("p", (2,), (0,))
        which = ["tensor", "tuple", "bad_xl", "bad_xu", "empty"][c.choose(5, "case")]
        xl, xu = st.scalar("xl", (1,)), st.scalar("xu")
        with kit.patched(qd, "_Quadrature", Fake):
            if which == "bad_xl":
                try:
                    qd.quad(lambda x, q: f1, st.scalar("xl2", (2,)), xu, params=(p,))
                    c.fail("rejects_multi_element_lower_limit", "accepted")
                except RuntimeError:
                    c.ok("rejects_multi_element_lower_limit")
                return
            if which == "bad_xu":
                try:
                    qd.quad(lambda x, q: f1, xl, st.scalar("xu2", (3,)), params=(p,))
                    c.fail("rejects_multi_element_upper_limit", "accepted")
                except RuntimeError:
                    c.ok("rejects_multi_element_upper_limit")
                return
            if which == "empty":
                try:
                    qd.quad(lambda x, q: (), xl, xu, params=(p,))
                    c.fail("rejects_empty_output", "accepted")
                except RuntimeError:
                    c.ok("rejects_empty_output")
                return
            if which == "tensor":
                r = qd.quad(lambda x, q: f1, xl, xu, params=(p,), bck_options={"n": 33}, n=9)
                a = cap["a"]
                c.check("tensor.apply_gets_limits_options_dtype", a[1] is xl and a[2] is xu and a[3] == {"n": 9, "method": "leggauss"}
                        and a[4] == {"n": 33} and a[5] == 1 and a[6] is f1.dtype and a[8] is p,
                        detail="forward options %r, backward options %r" % (a[3], a[4]))
                c.check("tensor.result_returned", r.name == "flat")
            else:
                bck = {"n": 33}
                r = qd.quad(lambda x, q: (f1, f2), xl, xu, params=(p,), bck_options=bck, n=9)
                a = cap["a"]
                c.check("tuple.apply_gets_limits_options_dtype", a[1] is xl and a[2] is xu and a[3] == {"n": 9, "method": "leggauss"}
                        and a[4] == {"n": 33} and a[5] == 1 and a[6] is f1.dtype and a[8] is p,
                        detail="forward options %r, backward options %r" % (a[3], a[4]))
                with st.no_grad():
                    flat = a[0](st.scalar("xq"), p)
                pieces, d = flat._cat_of
                c.check("tuple.rule_is_applied_to_flatten(f)", len(pieces) == 2 and z3.is_true(z3.simplify(z3.And(
                    pieces[0].v.eq(f1.v), pieces[1].v.eq(f2.v)))))
                c.check("tuple.result_is_packed_with_the_component_shapes", isinstance(r, tuple) and len(r) == 2
                        and r[0].shape == f1.shape and r[1].shape == f2.shape)
    return kit.run_unit("quad_frontend", run)


def units(tier):
    return [("leggauss", unit_leggauss), ("leggauss[const]", lambda: unit_leggauss(True)), ("forward", unit_forward),
            ("quad_frontend", unit_quad_frontend)]
