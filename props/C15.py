"""C15 - SQuad integrates the interpolant of the samples exactly (ARR domain: concrete shapes, symbolic entries)."""
import contextlib
import importlib

import z3

from pydv import core, kit, arr
from pydv.core import ctx, OutOfSubset
from props.C14 import hermite, sorted_knots, slope_conditions, rows_of_last_system, solved_slopes, prove_with, order_facts

CLAIM = {
    "claimed": True,
    "category": "proof",
    "text": "For EVERY number of sample positions nx (tensors of symbolic length, units any_size[*]): the real SQuad / TrapzSQuad / "
            "SimpsonSQuad / CubicSplineSQuad code and their weight builders (loops over range(.., nx, ..) cut at an invariant on a "
            "generic matrix entry, reductions over the sample axis recorded with their summand, linalg.solve replaced by its "
            "contract) satisfy, for 1-D y and all real positions and values: cumsum[0] = 0; for every r >= 1 the increment "
            "cumsum[r] - cumsum[r'] is the exact integral of the interpolant over the piece ending at sample r - trapz: "
            "(y_r-1 + y_r)/2 dx; cspline: the exact integral of the cubic Hermite piece whose slopes solve the spline system, "
            "those slopes making S'' continuous at every interior knot and satisfying the requested boundary condition "
            "(natural by default, clamped, not-a-knot, periodic); simpson: the parabola through three consecutive samples "
            "over a pair of intervals for even r, over the last interval for odd r >= 3, the trapezoid for r = 1; and "
            "cumsum[last] = integrate. The same for y with batch dimensions of EVERY size (symbolic) in the listed layouts - "
            "ranks 2, 3 and 4, the integrated dimension first, in the middle or last, given as a positive or negative dim, "
            "keepdim True / False: cumsum is shaped like y, integrate keeps the other dimensions in their order (with a "
            "dimension of size 1 when keepdim), and every line of y along dim is integrated independently as above. BOUNDED "
            "in the tensor shapes (all values; reported under bounded_obligations, not counted as proved): further layouts, "
            "rejection of a length that does not match x (including length 1), of a non-1-D x and of an unknown method, "
            "default method cspline - at 2 to 7 (thorough: 9) samples and batches of 2 x 3.",
    "note": "Assumed: linalg.solve returns a solution of its system; matrix products are associative (S (R y) = (S R) y); the "
            "sum of a function that vanishes off a finite set of columns is its sum over that set (proved by induction on every "
            "run as sum_lemma[*]); linearity of finite sums; floats are reals.",
    "design_ref": "DESIGN.md sections 6 C15 and 11.8",
}

META = {
    "level": "proof",
    "shape_bounded_by_default": True,
    "unbounded_units": ["any_size["],
    "explanation": "units any_size[*]: proofs for every number of samples (LAM domain, pydv/lam.py + props/anysize.py); every other unit "
                   "is a proof for all values at the tensor shapes it executes (2..7 sample positions, batches of 2 and 3) and is "
                   "reported under bounded_obligations",
    "files": ["xitorch/integrate/squad.py", "xitorch/_impls/integrate/samples_quad.py", "xitorch/_impls/interpolate/interp_1d.py"],
    "functions_under_contract": ["xitorch.integrate.squad:SQuad.__init__/cumsum/integrate",
                                 "xitorch._impls.integrate.samples_quad:get_trapz_weights, get_simpson_weights, get_cspline_grad_weights "
                                 "(loop invariants on a generic entry, all nx), CubicSplineSQuad, WeightBasedSQuad, TrapzSQuad, SimpsonSQuad",
                                 "xitorch._impls.interpolate.interp_1d:_get_spline_mat_inv (all nx, every boundary condition)"],
    "trusted_base": ["pydv/lam.py: tensors of symbolic size as functions of the index; basic indexing and diagonal() are views that "
                     "write through; meaning of the torch operations used (zeros, cat, matmul, sum, einsum, reshape of leading unit "
                     "dimensions)", "pydv/arr.py for the shape-bounded units", "linalg.solve returns a solution",
                     "matrix products are associative; finite sums are linear", "floats are reals", "z3 / cvc5 (linear integer "
                     "arithmetic with uninterpreted functions; nonlinear real arithmetic on rational identities in the interval widths)"],
    "assumptions": ["any-size units: 1-D y and 15 batched layouts of rank 2..4 (sizes symbolic); other layouts at shapes 2..7 x batches 2 x 3", "floats are reals",
                    "periodic boundary condition: y[0] == y[-1] (the library's documented requirement)"],
    "not_applicable_parts": ["dtypes other than real (the code is dtype-generic torch arithmetic)"],
    "min_obligations": 30,
}


def replay(name, first_bad):
    if "dim" in name or "shape" in name or "1-D" in name:
        return kit.concrete_replay("C15", ["dimension_handling"])
    return kit.concrete_replay("C15", ["against_reference_integrals", "first_zero_last_is_integrate"])


_M = {}


@contextlib.contextmanager
def arr_torch():
    if not _M:
        _M["sq"] = importlib.import_module("xitorch._impls.integrate.samples_quad")
        _M["sd"] = importlib.import_module("xitorch.integrate.squad")
        _M["i1"] = importlib.import_module("xitorch._impls.interpolate.interp_1d")
        _M["T"] = arr.make_torch()
    with kit.patched(_M["sq"], "torch", _M["T"]), kit.patched(_M["sd"], "torch", _M["T"]), kit.patched(_M["i1"], "torch", _M["T"]):
        yield _M


# ---- specification ---------------------------------------------------------------------------------------------
def parabola_integral(x0, x1, x2, y0, y1, y2, a, b):
    """integral from a to b of the parabola through (x0,y0), (x1,y1), (x2,y2)"""
    def prim(r, s, t):        # primitive of (t - r)(t - s)
        return t * t * t / 3 - (r + s) * t * t / 2 + r * s * t

    def piece(yc, xc, r, s):
        return yc * (prim(r, s, b) - prim(r, s, a)) / ((xc - r) * (xc - s))
    return piece(y0, x0, x1, x2) + piece(y1, x1, x0, x2) + piece(y2, x2, x0, x1)


def spec_cumsum(method, x, y, K, r):
    tot = z3.RealVal(0)
    if method == "trapz":
        for i in range(r):
            tot = tot + (y[i] + y[i + 1]) / 2 * (x[i + 1] - x[i])
    elif method == "cspline":
        for i in range(r):
            dx = x[i + 1] - x[i]
            # exact integral of the cubic Hermite piece
            tot = tot + (y[i] + y[i + 1]) / 2 * dx + (K[i] - K[i + 1]) * dx * dx / 12
    else:
        if r == 1:
            return (y[0] + y[1]) / 2 * (x[1] - x[0])
        for j in range(0, r - 1, 2):
            tot = tot + parabola_integral(x[j], x[j + 1], x[j + 2], y[j], y[j + 1], y[j + 2], x[j], x[j + 2])
        if r % 2 == 1:
            tot = tot + parabola_integral(x[r - 2], x[r - 1], x[r], y[r - 2], y[r - 1], y[r], x[r - 1], x[r])
    return tot


def spec_increment(method, x, y, K, r):
    """(r_prev, spec_cumsum(r) - spec_cumsum(r_prev)): the piece of the running integral that ends at sample r"""
    if method == "simpson" and r >= 2:
        if r % 2 == 0:
            return r - 2, parabola_integral(x[r - 2], x[r - 1], x[r], y[r - 2], y[r - 1], y[r], x[r - 2], x[r])
        return r - 1, parabola_integral(x[r - 2], x[r - 1], x[r], y[r - 2], y[r - 1], y[r], x[r - 1], x[r])
    dx = x[r] - x[r - 1]
    inc = (y[r - 1] + y[r]) / 2 * dx
    if method == "cspline":
        inc = inc + (K[r - 1] - K[r]) * dx * dx / 12
    return r - 1, inc


def widths_substitution(x, n):
    """x_k = xfirst + h_0 + .. + h_k-1 with h_j > 0: a bijection of the ordered grids that keeps denominators simple"""
    hs = [z3.Real("h%d" % j) for j in range(n - 1)]
    acc = z3.Real("xfirst")
    sub = []
    for k in range(n):
        sub.append((x[k], acc))
        if k < n - 1:
            acc = acc + hs[k]
    return sub, [h > 0 for h in hs]


def hermite_piece_integral_lemma(c):
    """the closed form used for cspline is the exact integral of the Hermite cubic (checked once, symbolically):
    d/dq of the primitive is the cubic and the primitive vanishes at the left end"""
    xl, xr, yl, yr, kl, kr, q = z3.Reals("xl xr yl yr kl kr q")
    dx = xr - xl
    t = (q - xl) / dx
    # primitive in t of the Hermite form (times dx)
    P = dx * (yl * (t ** 4 / 2 - t ** 3 + t) + dx * kl * (t ** 4 / 4 - 2 * t ** 3 / 3 + t ** 2 / 2) + yr * (-t ** 4 / 2 + t ** 3)
              + dx * kr * (t ** 4 / 4 - t ** 3 / 3))
    # derivative of P w.r.t. q written out term by term
    dP = (yl * (2 * t ** 3 - 3 * t ** 2 + 1) + dx * kl * (t ** 3 - 2 * t ** 2 + t) + yr * (-2 * t ** 3 + 3 * t ** 2) + dx * kr * (t ** 3 - t ** 2))
    prove_with(c, "lemma:primitive_of_the_hermite_cubic_differentiates_to_it", dP == hermite(xl, xr, yl, yr, kl, kr, q), [xr > xl])
    full = z3.substitute(P, (q, xr)) - z3.substitute(P, (q, xl))
    prove_with(c, "lemma:integral_of_a_hermite_piece_is_trapezoid_plus_slope_correction",
               full == (yl + yr) / 2 * dx + (kl - kr) * dx * dx / 12, [xr > xl])


def unit_values(method, n, bc=None):
    def run():
        c = ctx()
        x = sorted_knots(c, n)
        y = arr.sym("y", (n,))
        tag = "%s%s[n=%d]" % (method, "/" + bc if bc else "", n)
        opts = {"bc_type": bc} if bc else {}
        if bc == "periodic":
            c.assume(y.a[0] == y.a[n - 1])
        with arr_torch() as m:
            ok, obj = kit.call_or_fail(c, tag + ":constructor_does_not_raise", lambda: m["sd"].SQuad(x, method=method, **opts))
            if not ok:
                return
            ok, cs = kit.call_or_fail(c, tag + ":cumsum_does_not_raise", lambda: obj.cumsum(y))
            ok2, tot = kit.call_or_fail(c, tag + ":integrate_does_not_raise", lambda: obj.integrate(y))
        if not (ok and ok2):
            return
        c.check(tag + ":1-D_y:cumsum_is_shaped_like_y", isinstance(cs, arr.Tensor) and cs.shape == (n,), detail="shape %s" % (getattr(cs, "shape", None),))
        c.check(tag + ":1-D_y:integrate_is_a_scalar", isinstance(tot, arr.Tensor) and tot.shape == (), detail="shape %s" % (getattr(tot, "shape", None),))
        csa = cs.a.reshape(-1) if cs.a.size == n else None
        tota = tot.a.reshape(-1) if tot.a.size == 1 else None
        if csa is None or tota is None:
            return
        K = None
        only = order_facts(x.a, n) + ([y.a[0] == y.a[n - 1]] if bc == "periodic" else [])
        if method == "cspline":
            systems = c.ghost.get("arr_solve_systems", [])
            c.check(tag + ":slopes_come_from_the_spline_system", len(systems) >= 1)
            if not systems:
                return
            # cumsum and integrate both multiply the solved system by the same y: one slope vector
            K = systems[0][3][:, 0]
            same = all(z3.eq(a_, b_) for s_ in systems[1:] for a_, b_ in zip(s_[3].reshape(-1), systems[0][3].reshape(-1)))
            c.check(tag + ":cumsum_and_integrate_use_the_same_slopes", same)
            eqs = c.ghost["arr_tagged"]["solve"][:n]
            slope_conditions(c, tag, bc or "natural", x.a, y.a, K, n, eqs)
        sub, hfacts = widths_substitution(x.a, n)
        if bc == "periodic":
            hfacts = hfacts + [y.a[0] == y.a[n - 1]]

        def S(f):
            return z3.simplify(z3.substitute(f, *sub))
        # cumsum[r] = integral from x_0 to x_r, proved piece by piece: cumsum[0] = 0 and every increment is the integral of
        # the interpolant over the piece that ends at sample r (the sum of the pieces is the closed form spec_cumsum)
        prove_with(c, tag + ":first_entry_is_zero", S(csa[0] == 0), hfacts)
        for r in range(1, n):
            rp, inc = spec_increment(method, x.a, y.a, K, r)
            prove_with(c, tag + ":cumsum[r]_is_the_integral_of_the_interpolant_from_the_first_sample_to_sample_r",
                       S(csa[r] - csa[rp] == inc), hfacts)
        prove_with(c, tag + ":last_entry_equals_integrate", S(csa[n - 1] == tota[0]), hfacts)
        if method == "cspline" and n == 3 and (bc in (None, "natural")):
            hermite_piece_integral_lemma(c)
        c.prove("canary", z3.BoolVal(False), kind="canary")
    return kit.run_unit("%s%s[n=%d]" % (method, "/" + bc if bc else "", n), run)


def unit_dims(method, yshape, dim, keepdim):
    """y with the integrated axis at position dim; every line along that axis is integrated independently"""
    import itertools
    nd = len(yshape)
    ax = dim % nd
    n = yshape[ax]

    def run():
        c = ctx()
        x = sorted_knots(c, n)
        y = arr.sym("y", yshape)
        tag = "%s[y%s,dim=%d,keepdim=%s]" % (method, list(yshape), dim, keepdim)
        with arr_torch() as m:
            obj = m["sd"].SQuad(x, method=method)
            ok, cs = kit.call_or_fail(c, tag + ":cumsum_does_not_raise", lambda: obj.cumsum(y, dim=dim))
            ok2, tot = kit.call_or_fail(c, tag + ":integrate_does_not_raise", lambda: obj.integrate(y, dim=dim, keepdim=keepdim))
        only = order_facts(x.a, n)
        others = [range(s) for i, s in enumerate(yshape) if i != ax]
        if ok:
            c.check(tag + ":cumsum_shape_is_the_shape_of_y", cs.shape == tuple(yshape), detail="shape %s" % (cs.shape,))
        if ok2:
            want_shape = tuple(1 if i == ax else s for i, s in enumerate(yshape)) if keepdim else tuple(s for i, s in enumerate(yshape) if i != ax)
            c.check(tag + ":integrate_shape_keeps_the_other_dimensions_in_order", tot.shape == want_shape, detail="shape %s, expected %s" % (tot.shape, want_shape))
        systems = c.ghost.get("arr_solve_systems", [])
        for oi in itertools.product(*others):
            idx = list(oi)
            idx.insert(ax, slice(None))
            line = y.a[tuple(idx)]
            K = None
            if method == "cspline":
                # the slope vector of this line: the solved system whose right-hand side is this line
                K = _slopes_for_line(c, systems, line, n)
                if K is None:
                    c.fail(tag + ":every_line_has_its_own_spline_slopes", "no solved system for line %s" % (oi,))
                    return
            sub, hfacts = widths_substitution(x.a, n)

            def S(f):
                return z3.simplify(z3.substitute(f, *sub))

            def at(t_, r):
                i2 = list(oi)
                i2.insert(ax, r)
                return t_.a[tuple(i2)]
            if ok and cs.shape == tuple(yshape):
                prove_with(c, tag + ":cumsum_integrates_every_line_along_dim_independently", S(at(cs, 0) == 0), hfacts)
                for r in range(1, n):
                    rp, inc = spec_increment(method, x.a, line, K, r)
                    prove_with(c, tag + ":cumsum_integrates_every_line_along_dim_independently", S(at(cs, r) - at(cs, rp) == inc), hfacts)
            if ok2 and tot.shape == want_shape:
                i3 = list(oi)
                if keepdim:
                    i3.insert(ax, 0)
                if ok and cs.shape == tuple(yshape):
                    prove_with(c, tag + ":integrate_integrates_every_line_along_dim_independently", S(tot.a[tuple(i3)] == at(cs, n - 1)), hfacts)
                else:
                    prove_with(c, tag + ":integrate_integrates_every_line_along_dim_independently",
                               S(tot.a[tuple(i3)] == spec_cumsum(method, x.a, line, K, n - 1)), hfacts)
    return kit.run_unit("dims:%s[y%s,dim=%d,keepdim=%s]" % (method, list(yshape), dim, keepdim), run)


def _slopes_for_line(c, systems, line, n):
    for (A, B, Y, K) in systems:
        Ya = Y.a
        Ka = K
        # Y has shape (..., n, 1): find the batch position whose column is this line
        flatY = Ya.reshape(-1, n, Ya.shape[-1])
        flatK = Ka.reshape(-1, n, Ka.shape[-1])
        for b in range(flatY.shape[0]):
            if all(z3.eq(flatY[b, i, 0], line[i]) for i in range(n)):
                return flatK[b, :, 0]
    return None


def unit_rejections():
    def run():
        c = ctx()
        x = sorted_knots(c, 4)
        with arr_torch() as m:
            SQ = m["sd"].SQuad
            obj = SQ(x)
            c.check("default_method_is_cspline", type(obj.obj).__name__ == "CubicSplineSQuad")
            for meth in ("trapz", "simpson", "cspline"):
                o = SQ(x, method=meth)
                for f, nm in ((o.cumsum, "cumsum"), (o.integrate, "integrate")):
                    try:
                        f(arr.sym("y5", (5,)))
                        c.fail("%s.%s:wrong_length_is_rejected" % (meth, nm), "no exception")
                    except RuntimeError:
                        c.ok("%s.%s:wrong_length_is_rejected" % (meth, nm))
                    # a single value along the integrated dimension is a wrong length as well (it would broadcast silently)
                    for shp, dm in (((1,), -1), ((3, 1), -1), ((1, 3), 0)):
                        try:
                            f(arr.sym("y1", shp), dim=dm)
                            c.fail("%s.%s:length_one_is_rejected" % (meth, nm), "no exception for y of shape %s, dim=%d" % (shp, dm))
                        except RuntimeError:
                            c.ok("%s.%s:length_one_is_rejected" % (meth, nm))
                    try:
                        f(arr.sym("y45", (4, 5)), dim=0) if nm == "cumsum" else f(arr.sym("y45", (4, 5)), dim=1)
                        c.ok("%s.%s:length_is_checked_on_the_chosen_dimension" % (meth, nm)) if nm == "cumsum" else \
                            c.fail("%s.%s:length_is_checked_on_the_chosen_dimension" % (meth, nm), "no exception for dim of length 5")
                    except RuntimeError:
                        c.ok("%s.%s:length_is_checked_on_the_chosen_dimension" % (meth, nm)) if nm == "integrate" else \
                            c.fail("%s.%s:length_is_checked_on_the_chosen_dimension" % (meth, nm), "rejected a matching dimension")
            try:
                SQ(arr.sym("x2", (2, 4)))
                c.fail("non_1-D_x_is_rejected", "no exception")
            except RuntimeError:
                c.ok("non_1-D_x_is_rejected")
            try:
                SQ(x, method="romberg")
                c.fail("unknown_method_is_rejected", "no exception")
            except RuntimeError:
                c.ok("unknown_method_is_rejected")
    return kit.run_unit("rejections", run)


def unit_any_size(method, bc=None, layout=None):
    """EVERY number of samples: the real SQuad code on tensors of symbolic length (LAM domain, props/anysize.py).
    layout = (rank of y, dim, keepdim): y with batch dimensions of symbolic sizes, the integrated axis at position dim; the
    obligations are then stated for the line of y at generic batch indices"""
    from pydv import lam
    from pydv.core import fresh_int
    from props import anysize as A
    yrank, dim, keepdim = layout or (1, -1, False)
    ax = dim % yrank
    lname = "" if layout is None else ",y%dd,dim=%d,keepdim=%s" % (yrank, dim, keepdim)

    def run():
        c = ctx()
        nx = fresh_int("nx")
        n = nx.e
        tag = "any_size[%s%s%s]" % (method, "/" + bc if bc else "", lname)
        c.assume(n >= (3 if method == "cspline" else 2))
        x = lam.sym("x", nx)
        # y: values yv(position, batch id) - the batch id is an uninterpreted function of the batch indices
        yv = z3.Function("y", z3.IntSort(), z3.IntSort(), z3.RealSort())
        bid = z3.Function("batch", *([z3.IntSort()] * max(yrank - 1, 1) + [z3.IntSort()]))
        bsizes = [fresh_int("nb%d" % k) for k in range(yrank - 1)]
        for b in bsizes:
            c.assume(b.e >= 1)
        yshape = list(bsizes)
        yshape.insert(ax, nx)

        def yfn(ix):
            others = [ix[k] for k in range(yrank) if k != ax] or [z3.IntVal(0)]
            return yv(ix[ax], bid(*others))
        y = lam.LT(tuple(yshape), yfn, "real")
        bidx = [z3.Int("b%d" % k) for k in range(yrank - 1)]          # a generic line of y
        brange = [z3.And(b_ >= 0, b_ < s_.e) for b_, s_ in zip(bidx, bsizes)]
        bterm = bid(*(bidx or [z3.IntVal(0)]))

        def at(pos):
            ix = list(bidx)
            ix.insert(ax, pos)
            return tuple(ix)
        line = A.Seq(lambda i: yv(i, bterm))
        line.fn = lambda ix: yv(ix[-1], bterm)
        line.uf = yv
        X, Y = A.Seq(lambda i: x.fn((i,))), line
        c.ghost["lam_invariants"] = dict(A.INVARIANTS)
        opts = {"bc_type": bc} if bc else {}
        kw = {} if layout is None else {"dim": dim}
        with A.lam_world() as m:
            ok, obj = kit.call_or_fail(c, tag + ":constructor_does_not_raise", lambda: m["sd"].SQuad(x, method=method, **opts))
            if not ok:
                return
            ok, cs = kit.call_or_fail(c, tag + ":cumsum_does_not_raise", lambda: obj.cumsum(y, **kw))
            ok2, tot = kit.call_or_fail(c, tag + ":integrate_does_not_raise", lambda: obj.integrate(y, **(dict(kw, keepdim=keepdim) if layout else {})))
        if not (ok and ok2):
            return
        if lam.unfinished_cuts():
            raise OutOfSubset("a cut loop was left early: %s" % lam.unfinished_cuts())
        same_shape = isinstance(cs, lam.LT) and len(cs.shape) == yrank and all(lam._same_dim(a_, b_) for a_, b_ in zip(cs.shape, yshape))
        c.check(tag + ":cumsum_is_shaped_like_y", same_shape, detail="shape %s" % (getattr(cs, "shape", None),))
        want_tot = [1 if k == ax else s_ for k, s_ in enumerate(yshape)] if keepdim else [s_ for k, s_ in enumerate(yshape) if k != ax]
        tot_ok = isinstance(tot, lam.LT) and len(tot.shape) == len(want_tot) and all(lam._same_dim(a_, b_) for a_, b_ in zip(tot.shape, want_tot))
        c.check(tag + ":integrate_keeps_the_other_dimensions_in_order", tot_ok, detail="shape %s" % (getattr(tot, "shape", None),))
        if not (same_shape and tot_ok):
            return
        tot_ix = at(z3.IntVal(0)) if keepdim else tuple(bidx)
        r, col = z3.Int("r"), z3.Int("c")
        comb = lambda rr, cc_: lam.linear_summand(cs.fn(at(rr)), cc_)[0]
        nsum = lam.linear_summand(cs.fn(at(r)), col)[1]
        c.check(tag + ":cumsum_reduces_over_all_samples", lam._same_dim(nsum, n))
        tsum, ntot = lam.linear_summand(tot.fn(tot_ix), col)
        y = line            # from here on: the generic line
        funcs = {"x": x.uf, "y": y.uf}
        K = None
        if method == "cspline":
            # the batch dimensions lead in the code's internal layout (the integrated axis is moved to the end)
            internal = list(at(z3.IntVal(0)))
            internal[ax], internal[-1] = internal[-1], internal[ax]       # SQuad swaps the integrated axis with the last one
            K = _any_size_slopes(c, tag, bc or "natural", x, y, n, funcs, lead=internal[:-1])
            if K is None:
                return
        base = [n >= (3 if method == "cspline" else 2)] + brange
        # row 0: nothing integrated yet
        A.prove_with(c, tag + ":first_entry_is_zero", comb(z3.IntVal(0), col) == 0, base + [col >= 0, col < n] + A.facts_at([z3.IntVal(0)], [col]))
        # the last row is what integrate() sums
        A.prove_with(c, tag + ":last_entry_equals_integrate", tsum == comb(n - 1, col),
                     base + [col >= 0, col < n] + A.facts_at([n - 1, n - 2, n - 3], [col]))
        cases = []            # (name, hypotheses on r, previous row, candidate columns, integer points, labels)
        if method in ("trapz", "cspline"):
            cases.append(("", [r >= 1, r < n], r - 1, [r - 1, r], A.knot_points(r, -1, 0)))
        else:
            cases.append(("[r=1]", [r == 1, r < n], r - 1, [r - 1, r], A.knot_points(r, -1, 0), [(r, z3.IntVal(1))]))
            cases.append(("[r=2]", [r == 2, r < n], r - 2, [r - 2, r - 1, r], A.knot_points(r, -2, 0), [(r, z3.IntVal(2))]))
            cases.append(("[even r>=4]", [r >= 4, r < n, r % 2 == 0], r - 2, [r - 2, r - 1, r], A.knot_points(r, -2, 0)))
            cases.append(("[odd r>=3]", [r >= 3, r < n, r % 2 == 1], r - 1, [r - 2, r - 1, r], A.knot_points(r, -2, 0)))
        for case in cases:
            nm, rh, rp, cands, pts = case[:5]
            sb = case[5] if len(case) > 5 else None
            hyps = base + rh
            rows = [r, r - 1, r - 2]
            g = lambda cc_: comb(r, cc_) - comb(rp, cc_)
            ok_, explicit = A.finite_sum(c, tag + nm, g, cands, n, hyps, rows, "row_increment_of_the_weights")
            facts = [f_ for a_ in cands for f_ in A.facts_at(rows, [a_])]
            if method == "simpson":
                if nm == "[r=1]":
                    want = (Y[r - 1] + Y[r]) / 2 * (X[r] - X[r - 1])
                elif nm in ("[r=2]", "[even r>=4]"):
                    want = parabola_integral(X[r - 2], X[r - 1], X[r], Y[r - 2], Y[r - 1], Y[r], X[r - 2], X[r])
                else:
                    want = parabola_integral(X[r - 2], X[r - 1], X[r], Y[r - 2], Y[r - 1], Y[r], X[r - 1], X[r])
            else:
                _, want = spec_increment(method, X, Y, K, r)
            labels = [lb for _, lb in pts]
            fs = dict(funcs)
            if K is not None:
                fs[K.decl.name()] = K.decl
            A.canon_prove(c, tag + ":cumsum[r]_is_the_integral_of_the_interpolant_from_the_first_sample_to_sample_r" + nm,
                          explicit == want, hyps, pts, fs, [], facts, widths=("x", labels), subst=sb,
                          linear_in=["y@"] + ([K.decl.name() + "@"] if K is not None else []))
        A.sum_lemmas(c, (2, 3))
        c.prove("canary", z3.BoolVal(False), kind="canary")
    return kit.run_unit("any_size[%s%s%s]" % (method, "/" + bc if bc else "", lname), run)


def _any_size_slopes(c, tag, bc, x, y, n, funcs, lead=()):
    from props.C14 import any_size_slope_conditions
    return any_size_slope_conditions(c, tag, bc, x, y, n, funcs, lead=lead)


def units(tier):
    us = []
    for n in (2, 3, 4, 5, 6, 7):
        us.append(("trapz[n=%d]" % n, lambda n=n: unit_values("trapz", n)))
    for n in (2, 3, 4, 5, 6, 7) + ((8, 9) if tier == "thorough" else ()):
        us.append(("simpson[n=%d]" % n, lambda n=n: unit_values("simpson", n)))
    for bc, ns in ((None, (3, 4, 6)), ("natural", (5,)), ("clamped", (3, 5)), ("not-a-knot", (4, 5)), ("periodic", (3, 4, 6))):
        for n in ns:
            us.append(("cspline%s[n=%d]" % ("/" + bc if bc else "", n), lambda n=n, bc=bc: unit_values("cspline", n, bc)))
    dims = [("trapz", (2, 4), -1, False), ("trapz", (4, 2), 0, False), ("trapz", (2, 4, 3), 1, True), ("trapz", (2, 4, 3), -2, False),
            ("trapz", (4, 2, 3, 2), 0, False), ("simpson", (5, 2), 0, True), ("simpson", (2, 3, 5), 2, False), ("simpson", (2, 5, 3), -2, False),
            ("cspline", (3, 4), -1, True), ("cspline", (4, 3), 0, False), ("cspline", (2, 4, 3), 1, False), ("cspline", (2, 4, 3), -2, True),
            ("cspline", (4, 2, 2, 2), 0, False)]
    for mth, ys, d, kd in dims:
        us.append(("dims:%s[y%s,dim=%d,keepdim=%s]" % (mth, list(ys), d, kd), lambda mth=mth, ys=ys, d=d, kd=kd: unit_dims(mth, ys, d, kd)))
    us.append(("rejections", unit_rejections))
    for mth, bc in (("trapz", None), ("simpson", None), ("cspline", None), ("cspline", "clamped"), ("cspline", "not-a-knot"), ("cspline", "periodic")):
        us.append(("any_size[%s%s]" % (mth, "/" + bc if bc else ""), lambda mth=mth, bc=bc: unit_any_size(mth, bc)))
    # y with batch dimensions of symbolic sizes: every position of the integrated axis for ranks 2 and 3, one of rank 4
    for mth, lay in (("trapz", (2, 0, False)), ("trapz", (2, -1, True)), ("trapz", (3, 1, False)), ("trapz", (3, -2, True)), ("trapz", (3, 0, False)),
                     ("trapz", (3, -1, False)), ("trapz", (4, 1, False)), ("simpson", (2, 0, True)), ("simpson", (3, -2, False)), ("simpson", (3, 2, False)),
                     ("cspline", (2, 0, False)), ("cspline", (2, -1, True)), ("cspline", (3, 1, False)), ("cspline", (3, -3, True)), ("cspline", (4, 0, False))):
        us.append(("any_size[%s,y%dd,dim=%d,keepdim=%s]" % (mth, lay[0], lay[1], lay[2]), lambda mth=mth, lay=lay: unit_any_size(mth, None, lay)))
    return us
