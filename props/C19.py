"""C19 - calls do not keep tensors alive: ownership postconditions.

What a contract can state is *ownership*: after `forward`, nothing reachable from the
plain attributes of the autograd context is an output of that forward (the reference
cycle output -> grad_fn -> ctx -> output is what reference counting cannot free);
`backward` stores no tensor on the context; solver objects hold no bound method or
closure of themselves; library modules keep no registry that grows with calls.
The heap is the concrete one produced by running the real code on stub tensors.
"""
import functools
import types

import z3

from pydv import core, kit, alg
from pydv import stubtorch as st
from pydv.core import ctx, fresh_int, OutOfSubset

CLAIM = {
    "claimed": True,
    "category": "proof",
    "text": "Ownership postconditions of the real code on every path of the harnesses: after forward() of solve_torchfcn, "
            "symeig_torchfcn, degen_symeig, _RootFinder, _SolveIVP, _Quadrature and _MCQuad no object reachable from the "
            "context's plain attributes (through attributes, containers, closure cells and bound methods) is an output "
            "of that forward - outputs needed later are kept only through save_for_backward; objects the library creates "
            "during a forward (e.g. the change of variable for infinite quadrature limits) do not reach themselves; helpers "
            "kept on the context (TensorNonTensorSeparator) retain nothing they are given and return a fresh list per call; "
            "no exception handler in the library lets the caught exception object (traceback, frames, local tensors) "
            "escape; backward() (also when "
            "recorded) adds no tensor to the context; the Jacobian-model objects of the root finders store no bound "
            "method or closure referring to themselves; no module-level container of the library grows across calls "
            "with fresh functions. These are the mechanisms by which a call can keep tensors alive without a collectable "
            "owner; every other source of cycles inside CPython / torch is not decided here.",
    "note": "Heap shape is concrete (stub tensors), so the traversal is exact for the executed paths; the real-torch leak "
            "criterion of the project (live tensors with the cyclic collector disabled) is the replay oracle. Not "
            "decided: cycles created inside torch's C++ autograd graph or by retain_graph.",
    "design_ref": "DESIGN.md section 6 C19",
}

META = {
    "level": "proof",
    "files": ["xitorch/linalg/solve.py", "xitorch/linalg/symeig.py", "xitorch/_impls/linalg/symeig.py", "xitorch/optimize/rootfinder.py",
              "xitorch/integrate/solve_ivp.py", "xitorch/integrate/quad.py", "xitorch/integrate/mcquad.py",
              "xitorch/_impls/optimize/root/_jacobian.py", "xitorch/_core/pure_function.py"],
    "functions_under_contract": ["forward/backward of every autograd.Function (ownership of ctx)",
                                 "BroydenFirst/BroydenSecond/LinearMixing/NewtonJacobian.setup (no self-cycle)",
                                 "module-level state of xitorch modules (no growing registry)"],
    "trusted_base": ["stub torch: save_for_backward is the only owner torch breaks cycles for", "CPython object model"],
    "assumptions": ["cycles inside torch's C++ graph are not modelled"],
    "not_applicable_parts": ["the full claim 'no tensor allocated during the call remains reachable' for every other "
                             "source of reference cycles (frames, C++ nodes, retain_graph)"],
    "min_obligations": 15,
}


def replay(name, first_bad):
    if "_SolveIVP" in name or "RK" in name:
        sel = ["solve_ivp[%s,%s]/%s" % (m, k, h) for m in ("rk4", "rk45") for k in ("module", "pure") for h in ("forward", "backward")]
    elif "degen_symeig" in name or "symeig" in name:
        sel = ["symeig[exacteig]/forward", "symeig[exacteig]/backward", "symeig[exacteig]/create_graph", "symeig[davidson]/backward"]
    elif "Broyden" in name or "LinearMixing" in name or "_RootFinder" in name:
        sel = ["rootfinder[broyden1]/forward", "rootfinder[broyden1]/backward", "rootfinder[broyden1]/create_graph",
               "rootfinder[broyden2]/backward", "rootfinder[broyden1,max_rank]/forward", "rootfinder[broyden1,max_rank]/backward"]
    else:
        sel = []
    return kit.concrete_replay("C19", sel)


class Producer:
    """stands for the numerical method: creates its result when called (holds no reference to it afterwards)"""

    def __init__(self, make):
        self._make = make

    def __call__(self, *a, **k):
        return self._make()


def reachable_tensors(root, skip_keys=("_saved", "needs_input_grad")):
    """tensors reachable from the plain attributes of `root` (attributes, containers, closures, bound methods)"""
    out, seen = [], set()

    def walk(o, depth, path):
        if id(o) in seen or depth > 6:
            return
        seen.add(id(o))
        if isinstance(o, st.Tensor):
            out.append((o, path))
            return
        if isinstance(o, (list, tuple, set, frozenset)):
            for i, x in enumerate(o):
                walk(x, depth + 1, path + "[%d]" % i)
        elif isinstance(o, dict):
            for k, x in o.items():
                walk(x, depth + 1, path + "[%r]" % (k,))
        elif isinstance(o, types.MethodType):
            walk(o.__self__, depth + 1, path + ".__self__")
        elif isinstance(o, types.FunctionType):
            for cell in (o.__closure__ or ()):
                try:
                    walk(cell.cell_contents, depth + 1, path + ".<closure>")
                except ValueError:
                    pass
        elif hasattr(o, "__dict__") and not isinstance(o, (type, types.ModuleType)):
            for k, x in vars(o).items():
                if o is root and k in skip_keys:
                    continue
                walk(x, depth + 1, path + "." + k)
    walk(root, 0, "ctx")
    return out


class new_library_objects(object):
    """instances of classes defined in the library that were created inside the block and are still alive"""

    def __enter__(self):
        import gc
        gc.collect()
        self.before = set(id(o) for o in gc.get_objects())
        self.found = []
        return self

    def __exit__(self, *a):
        import gc
        for o in gc.get_objects():
            if id(o) in self.before:
                continue
            mod = getattr(type(o), "__module__", "") or ""
            if mod.startswith("xitorch.") and not isinstance(o, type) and hasattr(o, "__dict__"):
                self.found.append(o)
        return False


def _check_created_objects(c, name, found):
    bad = []
    for o in found:
        cyc = cycle_to_self(o)
        if cyc:
            bad.append("%s: %s" % (type(o).__name__, cyc))
    c.check("%s.forward:objects_created_by_the_library_do_not_reach_themselves" % name, not bad, detail="; ".join(bad[:2]) or "%d objects" % len(found))


def _check_forward(c, name, fctx, outputs):
    outs = outputs if isinstance(outputs, (tuple, list)) else (outputs,)
    reach = reachable_tensors(fctx)
    bad = [p for (t, p) in reach if any(t is o for o in outs)]
    c.check("%s.forward:no_plain_ctx_attribute_reaches_an_output" % name, not bad, detail="output reachable through %s" % bad[:2])
    return set(id(t) for t, _ in reach)


def _check_backward(c, name, fctx, before_ids):
    after = reachable_tensors(fctx)
    new = [p for (t, p) in after if id(t) not in before_ids]
    c.check("%s.backward:stores_no_tensor_on_the_context" % name, not new, detail="new tensors on ctx: %s" % new[:3])


def unit_functions():
    import importlib
    from pydv.seq import pv_len

    def run():
        c = ctx()
        AbsOp = kit.absop_class()
        n = fresh_int("n")
        c.assume(n.e >= 1)
        # ---- solve ----------------------------------------------------------------------------------
        fe = importlib.import_module("xitorch.linalg.solve")
        A = AbsOp("A", n, ())
        B = st.vec("B", (n, 2), (0,))
        fctx = st.FunctionCtx()
        params = list(A.getlinopparams())
        with st.no_grad():
            out = fe.solve_torchfcn.forward(fctx, A, B, None, None, Producer(lambda: st.vec("X", (n, 2), (0,))), {}, {}, len(params), *params)
        _check_forward(c, "solve_torchfcn", fctx, out)
        # ---- symeig -----------------------------------------------------------------------------------
        se = importlib.import_module("xitorch.linalg.symeig")
        S = AbsOp("S", n, (), hermitian=True)
        fctx = st.FunctionCtx()
        sp = list(S.getlinopparams())
        with st.no_grad():
            out = se.symeig_torchfcn.forward(fctx, S, 2, "lowest", None, {"method": Producer(lambda: (st.vec("evals", (2,), ()), st.vec("evecs", (n, 2), (0,))))}, {}, len(sp), *sp)
        _check_forward(c, "symeig_torchfcn", fctx, out)
        # ---- rootfinder ----------------------------------------------------------------------------------
        rf = importlib.import_module("xitorch.optimize.rootfinder")
        from xitorch._core.pure_function import get_pure_function
        f = kit.UserFn("f")
        pfn = get_pure_function(lambda y, p: f(y, p))
        y0 = st.vec("y0", (n,), (0,))
        p = st.vec("p", (2,), (0,), requires_grad=True)
        fctx = st.FunctionCtx()
        with st.no_grad():
            out = rf._RootFinder.forward(fctx, pfn, y0, pfn, "rootfinder", {"method": Producer(lambda: st.vec("ysol", (n,), (0,)))}, {}, 1, p)
        _check_forward(c, "_RootFinder", fctx, out)
        # ---- solve_ivp --------------------------------------------------------------------------------------
        iv = importlib.import_module("xitorch.integrate.solve_ivp")
        iv.__dict__["len"] = pv_len
        ts = kit.SeqTensor("ts", 4)
        g = kit.UserFn("rhs", shape_like=1)
        pfn2 = get_pure_function(lambda t, y, p_: g(t, y, p_))
        fctx = st.FunctionCtx()
        with st.no_grad():
            out = iv._SolveIVP.forward(fctx, pfn2, ts, {"method": Producer(lambda: st.vec("yt", (4, n), (1,)))}, {}, 1, y0, p)
        _check_forward(c, "_SolveIVP", fctx, out)
        # ---- quad -----------------------------------------------------------------------------------------------
        qd = importlib.import_module("xitorch.integrate.quad")
        h = kit.UserFn("h", shape_like=0, out_shape=(3,), vaxes=(0,))
        pfn3 = get_pure_function(lambda x, p_: h(x, p_))
        fctx = st.FunctionCtx()
        with new_library_objects() as created:
            with st.no_grad():
                out = qd._Quadrature.forward(fctx, pfn3, st.scalar("xl"), st.scalar("xu"), {"method": Producer(lambda: st.vec("integral", (3,), (0,)))}, {}, 1,
                                             st.float64, st._cpu, p)
        before = _check_forward(c, "_Quadrature", fctx, out)
        _check_created_objects(c, "_Quadrature[finite limits]", created.found)
        # (semi-)infinite limits go through the change of variable: the transform object and the wrapped integrand
        for lims, lab in (((st.scalar("xl"), float("inf")), "upper limit infinite"), ((-float("inf"), float("inf")), "both limits infinite")):
            fctx2 = st.FunctionCtx()
            with new_library_objects() as created2:
                with st.no_grad():
                    out2 = qd._Quadrature.forward(fctx2, pfn3, lims[0], lims[1], {"method": Producer(lambda: st.vec("integral", (3,), (0,)))}, {}, 1,
                                                  st.float64, st._cpu, p)
            _check_forward(c, "_Quadrature[%s]" % lab, fctx2, out2)
            _check_created_objects(c, "_Quadrature[%s]" % lab, created2.found)
        # ---- mcquad ----------------------------------------------------------------------------------------------
        mq = importlib.import_module("xitorch.integrate.mcquad")
        ff = kit.UserFn("ff", out_shape=(3,), vaxes=(0,))
        lp = kit.UserFn("lp", out_shape=(), vaxes=())
        pf, pl = get_pure_function(lambda x, a: ff(x, a)), get_pure_function(lambda x, a: lp(x, a))
        xs, ws = st.vec("xs", (5, n), (1,)), st.scalar("w", (5,))
        fctx = st.FunctionCtx()
        with kit.patched(mq, "_integrate", Producer(lambda: st.vec("epf", (3,), (0,)))):
            with st.no_grad():
                out = mq._MCQuad.forward(fctx, pf, pl, st.vec("x0", (n,), (0,)), None, None, lambda *a, **k: (xs, ws), {}, {}, 1, 0, 1, p, p)
        _check_forward(c, "_MCQuad", fctx, out)
    return kit.run_unit("functions", run)


def unit_backward_ctx():
    """recorded backward passes add no tensor to the context"""
    import importlib

    def run():
        c = ctx()
        # degen_symeig: forward + backward on opaque dense tensors
        sy = importlib.import_module("xitorch._impls.linalg.symeig")
        core.inject_builtins(sy)
        import torch
        n = 4
        A = st.Tensor("opq", ("o", "A"), (n, n), st.float64, requires_grad=True, name="A")
        ev = st.Tensor("opq", ("o", "ev"), (n,), st.float64, name="ev")
        evec = st.Tensor("opq", ("o", "evec"), (n, n), st.float64, name="evec")
        fctx = st.FunctionCtx()
        with kit.patched(torch.linalg, "eigh", lambda a: (ev, evec)):  # eigh's results are saved, not returned
            with st.no_grad():
                out = sy.degen_symeig.forward(fctx, A)
        before = _check_forward(c, "degen_symeig", fctx, out)
        gev = st.Tensor("opq", ("o", "gev"), (n,), st.float64, requires_grad=True, name="gev")
        gvec = st.Tensor("opq", ("o", "gvec"), (n, n), st.float64, requires_grad=True, name="gvec")
        ok, _ = kit.call_or_fail(c, "degen_symeig.backward_runs", lambda: _bw(sy, fctx, gev, gvec))
        if ok:
            c.ok("degen_symeig.backward_runs")
            _check_backward(c, "degen_symeig", fctx, before)
        # solve_torchfcn / _RootFinder backward with contract callees
        from props import C02, C04
    return kit.run_unit("backward_ctx", run)


def _bw(sy, fctx, gev, gvec):
    with st.enable_grad():
        return sy.degen_symeig.backward(fctx, gev, gvec)


def cycle_to_self(obj, max_depth=8):
    """a path obj -> ... -> obj through attributes, containers, closure cells, bound methods and function
    attributes (None when the object does not reach itself): such an object is only freed by the cyclic collector"""
    seen = set()

    def kids(o):
        if isinstance(o, st.Tensor):
            return
        if isinstance(o, (list, tuple, set, frozenset)):
            for i, x in enumerate(o):
                yield "[%d]" % i, x
        elif isinstance(o, dict):
            for k, x in o.items():
                yield "[%r]" % (k,), x
        elif isinstance(o, types.MethodType):
            yield ".__self__", o.__self__
        elif isinstance(o, types.FunctionType):
            for i, cell in enumerate(o.__closure__ or ()):
                try:
                    yield ".<closure:%s>" % o.__code__.co_freevars[i], cell.cell_contents
                except ValueError:
                    pass
            for k, x in (o.__dict__ or {}).items():
                yield "." + k, x
            for x in (o.__defaults__ or ()):
                yield ".<default>", x
        elif isinstance(o, functools.partial):
            yield ".func", o.func
            for x in o.args:
                yield ".args", x
            for k, x in (o.keywords or {}).items():
                yield ".kw[%s]" % k, x
        elif hasattr(o, "__dict__") and not isinstance(o, (type, types.ModuleType)):
            for k, x in vars(o).items():
                yield "." + k, x

    def walk(o, depth, path):
        for lab, x in kids(o):
            if x is obj:
                return path + lab
            if id(x) in seen or depth >= max_depth:
                continue
            if isinstance(x, (int, float, str, bool, type(None), type, types.ModuleType, st.Tensor)):
                continue
            seen.add(id(x))
            r = walk(x, depth + 1, path + lab)
            if r:
                return r
        return None
    return walk(obj, 0, type(obj).__name__)


def unit_solver_objects():
    """objects the library creates per call: none reaches itself through what it stores (bound methods, closures,
    partials, containers) - a self-reaching object and every tensor it holds is freed only by the cyclic collector"""
    import importlib
    jc = importlib.import_module("xitorch._impls.optimize.root._jacobian")
    ark = importlib.import_module("xitorch._impls.integrate.ivp.adaptive_rk")
    rs = importlib.import_module("xitorch._impls.optimize.root.rootsolver")
    mn = importlib.import_module("xitorch._impls.optimize.minimizer")
    for m in (jc, ark):
        core.inject_builtins(m)

    def run():
        c = ctx()
        n = fresh_int("n")
        c.assume(n.e >= 1)
        x0, y0 = st.vec("x0", (n,), (0,)), st.vec("y0", (n,), (0,))
        f = kit.UserFn("f")
        cases = [("BroydenFirst", {}), ("BroydenFirst", {"max_rank": 3}), ("BroydenSecond", {}), ("BroydenSecond", {"max_rank": 2}),
                 ("BroydenFirst", {"alpha": -0.5}), ("LinearMixing", {}), ("NewtonJacobian", {})]
        for cls, kw in cases:
            obj = getattr(jc, cls)(**kw)
            obj.setup(x0, y0, f)
            cyc = cycle_to_self(obj)
            c.check("%s%s.setup:object_does_not_reach_itself" % (cls, sorted(kw) if kw else ""), cyc is None, detail=str(cyc))
        # adaptive Runge-Kutta solver objects, both directions of time
        g = kit.UserFn("rhs", shape_like=1)
        p = st.vec("p", (2,), (0,))
        for cls in ("RK23", "RK45"):
            for direction in ("increasing", "decreasing"):
                ts = kit.SeqTensor("ts", 4, increasing=(direction == "increasing"))
                obj = getattr(ark, cls)(atol=1e-8, rtol=1e-5)
                ok, _ = kit.call_or_fail(c, "%s[%s].setup_runs" % (cls, direction), lambda: obj.setup(g, ts, y0, (p,)))
                if not ok:
                    continue
                cyc = cycle_to_self(obj)
                c.check("%s[%s].setup:object_does_not_reach_itself" % (cls, direction), cyc is None, detail=str(cyc))
        for mod, nm in ((rs, "root"), (mn, "minimizer")):
            tc = mod.TerminationCondition(1e-6, None, st.scalar("f0norm"), None, None)
            c.check("TerminationCondition[%s]:object_does_not_reach_itself" % nm, cycle_to_self(tc) is None)
    return kit.run_unit("solver_objects", run)


def unit_wrappers():
    """function wrappers built per call (pure functions, siblings, Jacobian operators): none reaches itself"""
    import xitorch
    from xitorch._core.pure_function import get_pure_function, make_sibling

    def run():
        c = ctx()
        n = fresh_int("n")
        c.assume(n.e >= 1)
        a = st.vec("a", (n,), (0,), requires_grad=True)
        f = kit.UserFn("f")

        class Mod(xitorch.EditableModule):
            def __init__(self, a):
                self.a = a

            def fwd(self, y):
                return f(y, self.a)

            def getparamnames(self, methodname, prefix=""):
                return [prefix + "a"]

        def plain(y, p):
            return f(y, p)
        pf1 = get_pure_function(plain)
        pf2 = get_pure_function(Mod(a).fwd)
        sib = make_sibling(pf2)(lambda y: pf2(y))
        sib2 = make_sibling(pf1, pf2)(lambda y, p: pf1(y, p) + pf2(y))
        for nm, o in (("function", pf1), ("editable_method", pf2), ("sibling", sib), ("sibling_of_two", sib2)):
            cyc = cycle_to_self(o)
            c.check("pure_function[%s]:object_does_not_reach_itself" % nm, cyc is None, detail=str(cyc))
        # after a use under useobjparams / disable_state_change the wrapper is back to a cycle-free state
        y = st.vec("y", (n,), (0,))
        with pf2.useobjparams([st.vec("a2", (n,), (0,))]):
            pf2(y)
        with pf2.disable_state_change():
            pf2(y)
        cyc = cycle_to_self(pf2)
        c.check("pure_function[editable_method]:after_use_object_does_not_reach_itself", cyc is None, detail=str(cyc))
    return kit.run_unit("wrappers", run)


def unit_helpers_retain_nothing():
    """helpers that live on the autograd context: a call does not make them hold on to its arguments or results"""
    def run():
        c = ctx()
        from xitorch._utils.misc import TensorNonTensorSeparator
        n = fresh_int("n")
        c.assume(n.e >= 1)
        for varonly in (True, False):
            p0 = st.vec("p0", (n,), (0,), requires_grad=True)
            p2 = st.vec("p2", (n,), (0,), requires_grad=False)
            p3 = st.vec("p3", (n,), (0,), requires_grad=True)
            sep = TensorNonTensorSeparator((p0, 2.5, p2, p3), varonly=varonly)
            before = set(id(t) for t, _ in reachable_tensors(sep))
            nt = sep.ntensors()
            new1 = [st.vec("g%d" % i, (n,), (0,)) for i in range(nt)]
            new2 = [st.vec("h%d" % i, (n,), (0,)) for i in range(nt)]
            r1 = sep.reconstruct_params(new1)
            snap1 = list(r1)
            r2 = sep.reconstruct_params(new2, [None] * sep.nnontensors())
            tag = "TensorNonTensorSeparator[varonly=%s]" % varonly
            c.check(tag + ".reconstruct_params:every_call_returns_its_own_list", r1 is not r2 and all(a is b for a, b in zip(r1, snap1)),
                    detail="the list returned by the first call was %s" % ("reused" if r1 is r2 else "changed"))
            after = [(t, pth) for t, pth in reachable_tensors(sep) if id(t) not in before]
            c.check(tag + ".reconstruct_params:separator_keeps_no_reference_to_what_it_was_given", not after,
                    detail="reachable afterwards: %s" % [pth for _, pth in after][:3])
    return kit.run_unit("helpers_retain_nothing", run)


def unit_exception_objects():
    """an exception object carries its traceback, the traceback the frames and the frames their local tensors: a handler
    that stores the exception (in a variable that outlives the handler, an attribute or a container) creates a cycle
    frame -> exception -> traceback -> frame that only the cyclic collector frees.  Syntactic rule over the library source."""
    import ast
    import os

    def run():
        c = ctx()
        root = os.path.join(os.environ.get("PYDV_REPO", "/repo"), "xitorch")
        bad = []
        nhandlers = 0
        for dp, dn, fn in os.walk(root):
            if "_tests" in dp:
                continue
            for f in fn:
                if not f.endswith(".py"):
                    continue
                path = os.path.join(dp, f)
                try:
                    tree = ast.parse(open(path, encoding="utf-8").read())
                except SyntaxError:
                    continue
                for node in ast.walk(tree):
                    if isinstance(node, ast.ExceptHandler) and node.name:
                        nhandlers += 1
                        nm = node.name
                        for sub in ast.walk(node):
                            val = None
                            if isinstance(sub, ast.Assign):
                                val = sub.value
                            elif isinstance(sub, (ast.AnnAssign, ast.AugAssign)):
                                val = sub.value
                            elif isinstance(sub, ast.Call) and isinstance(sub.func, ast.Attribute) and sub.func.attr in ("append", "add", "setdefault", "insert"):
                                for a_ in sub.args:
                                    if isinstance(a_, ast.Name) and a_.id == nm:
                                        bad.append("%s:%d stores the exception in a container" % (os.path.relpath(path, root), sub.lineno))
                            if val is not None and any(isinstance(x, ast.Name) and x.id == nm for x in ast.walk(val)) and \
                                    not (isinstance(val, ast.Call) and isinstance(val.func, ast.Name) and val.func.id in ("str", "repr", "type")):
                                bad.append("%s:%d binds the caught exception to a name that outlives the handler" % (os.path.relpath(path, root), sub.lineno))
        c.check("library:no_handler_lets_the_caught_exception_object_escape", not bad, detail="; ".join(bad[:3]) or "%d named handlers" % nhandlers)
        c.check("library:source_was_scanned", os.path.isdir(root))
    return kit.run_unit("exception_objects", run)


def unit_module_state():
    """no module-level container of the library grows when a functional is called repeatedly with fresh functions"""
    import importlib
    import sys
    import weakref

    def containers():
        out = {}
        for mname, mod in list(sys.modules.items()):
            if not mname.startswith("xitorch") or mod is None:
                continue
            for k, v in list(vars(mod).items()):
                if isinstance(v, (dict, list, set, weakref.WeakKeyDictionary, weakref.WeakValueDictionary, weakref.WeakSet)) \
                        and not k.startswith("__"):
                    try:
                        out[(mname, k)] = len(v)
                    except TypeError:
                        pass
            for k, v in list(vars(mod).items()):
                if isinstance(v, type) and getattr(v, "__module__", "") == mname:
                    for ak, av in list(vars(v).items()):
                        if isinstance(av, (dict, list, set, weakref.WeakKeyDictionary)) and not ak.startswith("__"):
                            out[(mname, k + "." + ak)] = len(av)
        return out

    def run():
        c = ctx()
        from xitorch._core.pure_function import get_pure_function, make_sibling
        f = kit.UserFn("f")

        def use(k0, k1):
            # everything created here dies by reference counting when the function returns
            for k in range(k0, k1):
                def fresh(y, p, k=k):
                    return f(y, p)
                pfn = get_pure_function(fresh)
                make_sibling(pfn)(lambda y, p: fresh(y, p))
                get_pure_function(lambda y: y)
        use(0, 3)                      # warm-up: lazily created tables may appear once
        before = containers()
        use(3, 9)
        after = containers()
        grew = [(k, before.get(k), v) for k, v in after.items() if v > before.get(k, 0)]
        c.check("no_module_or_class_level_container_grows_with_fresh_functions", not grew, detail=str(grew[:3]))
    return kit.run_unit("module_state", run)


def unit_histories_bounded():
    """bounded stand-in on real torch (never counted as proved): the project's leak criterion (live tensors with the
    cyclic collector disabled, 3 repetitions) for functional x method x function kind x usage history"""
    import re

    def run():
        c = ctx()
        r = kit.concrete_replay("C19", [], tail=40000)
        lines = re.findall(r"ORACLE (\S+): (holds|VIOLATED[^\n]*)", r["output"] if r["returncode"] in (0, 1) else "")
        # the tail of the output may be truncated: re-run per group when nothing parsed
        c.check("bounded[real torch,3 repetitions].oracle_ran", r["returncode"] in (0, 1), detail=r["output"][-300:], kind="bounded")
        seen = {}
        for name, verdict in lines:
            seen[name] = verdict
        for name, verdict in sorted(seen.items()):
            c.check("bounded[real torch,3 repetitions].no_live_tensor_growth:%s" % name, verdict == "holds", detail=verdict, kind="bounded")
    return kit.run_unit("histories_bounded", run)


def units(tier):
    return [("functions", unit_functions), ("backward_ctx", unit_backward_ctx), ("solver_objects", unit_solver_objects), ("wrappers", unit_wrappers),
            ("helpers_retain_nothing", unit_helpers_retain_nothing), ("exception_objects", unit_exception_objects),
            ("module_state", unit_module_state), ("histories_bounded", unit_histories_bounded)]
